"""Plain pytest replay of every stored case, without the explorer:
  /venv/bin/python -m pytest -q /verif/replays/test_replays.py
known-*.json  : a listed known finding - the recorded signature must still be produced (the defect is still there)
other *.json  : a violation recorded by a check run - replayed and reported"""
import glob, importlib, json, os, sys
import pytest

HERE = os.path.dirname(os.path.abspath(__file__))
sys.path.insert(0, os.path.dirname(HERE))
sys.path.insert(0, os.environ.get('PYMININEC_SRC', '/repo'))
FILES = sorted(glob.glob(os.path.join(HERE, '*.json')))


@pytest.mark.parametrize('path', FILES, ids=[os.path.basename(f) for f in FILES])
def test_replay(path):
    rec = json.load(open(path))
    # through the runner's own case wrapper (an exception inside the code under test is a CRASH:<type>@<function> signature)
    from mcx import core
    core._init_worker('mcx.props.' + rec['property'].lower())
    res = core._run_one(rec['case'])
    sigs = [s for s, _ in res.get('viol', [])]
    if os.path.basename(path).startswith('known-'):
        assert rec['signature'] in sigs, 'known finding no longer reproduced: %s' % rec['signature']
    else:
        assert not sigs, 'violation reproduced: %s' % res['viol'][:2]
