"""Shared geometry machinery: lattices and seed variants, structure enumeration,
case -> live model builders, domain predicates (computed from the case geometry
only), geometric pulse identity and conductor currents."""
import itertools, math
import numpy as np

C_MININEC = 299.8   # the code's speed of light in Mm/s: wavelength = 299.8 / f[MHz]

BASE5 = [(0, 0, 0), (1, 0, 0), (0, 1.1, 0), (0, 0, 0.9), (1, 1.1, 0.9)]
BASE7 = BASE5 + [(0.9, 0.2, 1.0), (0.6, 0.8, 0.3)]      # no three points collinear, no two edges crossing (checked by tools)
GND5 = [(0, 0, 0), (1, 0.2, 0), (0.1, 0.3, 0.8), (0.9, 1.0, 0.7), (0.5, 1.2, 1.55)]
GND7 = GND5 + [(1.0, 0.1, 1.5), (0.5, 0.7, 0.0)]

# eight fixed (rotation, scale in wavelengths per lattice unit, frequency) variants
VARIANTS = [
    ((17., -33., 71.), 0.100, 30.0),
    ((-41., 12., 133.), 0.090, 14.2),
    ((63., 27., -19.), 0.110, 144.0),
    ((5., -71., 38.), 0.095, 3.6),
    ((122., 44., -67.), 0.105, 50.1),
    ((-13., -58., 201.), 0.085, 7.05),
    ((29., 81., 11.), 0.115, 21.3),
    ((-77., 19., -143.), 0.100, 432.0),
]


def variant(seed):
    return VARIANTS[int(seed) % len(VARIANTS)]


def rotmat(angles_deg):
    """own rotation matrix: X first, then Y, then Z (documented order)"""
    ax, ay, az = [math.radians(a) for a in angles_deg]
    rx = np.array([[1, 0, 0], [0, math.cos(ax), -math.sin(ax)], [0, math.sin(ax), math.cos(ax)]])
    ry = np.array([[math.cos(ay), 0, math.sin(ay)], [0, 1, 0], [-math.sin(ay), 0, math.cos(ay)]])
    rz = np.array([[math.cos(az), -math.sin(az), 0], [math.sin(az), math.cos(az), 0], [0, 0, 1]])
    return rz @ ry @ rx


# lattice with exactly axis-aligned, vertical and diagonal (dx == -dy, dx == dy) wire directions:
# code that special-cases a direction component being zero or two components cancelling shows up here
SYMG5 = [(0, 0, 0), (1.0, -0.4, 0), (-0.6, 0.6, 0.9), (0.6, 0.6, 0.9), (0, 0, 1.0)]


def lattice(seed, ground=False, n=5, special=False):
    """lattice points in metres for the seed variant"""
    rot, s, f = variant(seed)
    lam = C_MININEC / f
    if ground:
        base = GND5 if n == 5 else GND7
        # over ground only a rotation about z keeps the plane
        R = rotmat((0, 0, rot[2]))
        if special:
            base, R = SYMG5, np.eye(3)
    else:
        base = BASE5 if n == 5 else BASE7
        R = rotmat(rot)
        if special:
            R = np.eye(3)
    P = [(R @ np.array(p, float)) * s * lam for p in base]
    if ground:
        for p in P:
            if abs(p[2]) < 1e-12:
                p[2] = 0.0
    return P, f, lam


def edge_sets(npts, dmax, dmin=1):
    und = list(itertools.combinations(range(npts), 2))
    for d in range(dmin, dmax + 1):
        for es in itertools.combinations(und, d):
            yield es


def edge_sets_new(npts, dmax, old=5, dmin=1):
    """edge sets on npts points that use at least one of the points beyond the first `old` (the others are covered
    by the smaller lattice)"""
    for es in edge_sets(npts, dmax, dmin):
        if any(v >= old for e in es for v in e):
            yield es


def connected(edges):
    """is the edge set one connected component?"""
    verts = set(v for e in edges for v in e)
    if not verts:
        return True
    seen = {next(iter(verts))}
    ch = True
    while ch:
        ch = False
        for a, b in edges:
            if (a in seen) != (b in seen):
                seen |= {a, b}
                ch = True
    return seen == verts


# ---------------------------------------------------------------- exact segment distance
def seg_seg_dist(p1, q1, p2, q2):
    """minimum distance between segments p1q1 and p2q2 (Ericson)"""
    d1, d2, r = q1 - p1, q2 - p2, p1 - p2
    a, e, f = d1 @ d1, d2 @ d2, d2 @ r
    if a <= 1e-30 and e <= 1e-30:
        return float(np.linalg.norm(r))
    if a <= 1e-30:
        s, t = 0.0, min(max(f / e, 0), 1)
    else:
        c = d1 @ r
        if e <= 1e-30:
            t, s = 0.0, min(max(-c / a, 0), 1)
        else:
            b = d1 @ d2
            den = a * e - b * b
            s = min(max((b * f - c * e) / den, 0), 1) if den > 1e-30 * a * e else 0.0
            t = (b * s + f) / e
            if t < 0:
                t, s = 0.0, min(max(-c / a, 0), 1)
            elif t > 1:
                t, s = 1.0, min(max((b - c) / a, 0), 1)
    return float(np.linalg.norm((p1 + d1 * s) - (p2 + d2 * t)))


# ---------------------------------------------------------------- cases
def wire(p1, p2, n, r, tag=None, taper=None):
    d = dict(kind='wire', p1=[float(x) for x in p1], p2=[float(x) for x in p2], n=int(n), r=float(r))
    if tag is not None:
        d['tag'] = int(tag)
    if taper is not None:
        d['taper'] = taper
    return d


def auto_nseg(length, target, nmin=2):
    """segment count that brings the segment length closest to target"""
    return max(nmin, int(round(length / target)))


def seg_ends(w):
    """segment end points of a (non-tapered) straight wire, from the case only"""
    p1, p2 = np.array(w['p1']), np.array(w['p2'])
    return [p1 + (p2 - p1) * i / w['n'] for i in range(w['n'] + 1)]


def media_from(env):
    from mininec.mininec import Medium
    if env is None or env == 'free':
        return None
    if env == 'ideal':
        return [Medium(0, 0)]
    ms = []
    for i, m in enumerate(env['media']):
        kw = {}
        if i == 0 and env.get('radials'):
            kw.update(nradials=env['radials'][0], radius=env['radials'][1])
        kw['boundary'] = env.get('boundary', 'linear')
        if len(m) > 3 and m[3] is not None:
            kw['coord'] = m[3]
        ms.append(Medium(m[0], m[1], m[2], **kw))
    return ms


def make_geo(case):
    """Geo_Container built through the public API, transformations applied the
    way main() does (sorted by key, scaling last)"""
    import mininec.mininec as mm
    geo = mm.Geo_Container()
    for w in case['wires']:
        k = w.get('kind', 'wire')
        if k == 'wire':
            o = mm.Wire(w['n'], *w['p1'], *w['p2'], w['r'], tag=w.get('tag'))
            if w.get('taper'):
                t = w['taper']
                o.segtype = t[0]
                o.taper_min = t[1] if len(t) > 1 else None
                o.taper_max = t[2] if len(t) > 2 else None
        elif k == 'arc':
            o = mm.Arc(w['n'], w['radius'], w['ang1'], w['ang2'], w['r'], tag=w.get('tag'))
        elif k == 'helix':
            o = mm.Helix(w['n'], w['length'], w['turnlen'], w['r'], *w['radii'], tag=w.get('tag'))
        o._case_w = w
        geo.append(o)
    geo.compute_tags()
    tr = [t for t in case.get('transforms', []) if t[0] != 'scale']
    for t in sorted(tr, key=lambda x: x[1]):
        kind, key, vec = t[0], t[1], t[2]
        tag = t[3] if len(t) > 3 else None
        if kind == 'rotate':
            geo.rotate(key, np.array(vec, float), tag)
        else:
            geo.translate(key, np.array(vec, float), tag)
    for t in case.get('transforms', []):
        if t[0] == 'scale':
            geo.scale(t[1], t[2] if len(t) > 2 else None)
    return geo


def build(case, sources=True, loads=True):
    """case -> live Mininec (not computed)"""
    import mininec.mininec as mm
    m = mm.Mininec(case['f'], make_geo(case), media=media_from(case.get('env')))
    if sources:
        add_sources(m, case.get('sources', []))
    if loads:
        add_loads(m, case.get('loads', []))
        # distributed loads given with the object they belong to: 'skin' = conductivity, 'coat' = (outer radius, eps_r)
        dist = False
        for g in m.geo:
            w = getattr(g, '_case_w', {})
            if w.get('skin') is not None:
                m.register_load(mm.Skin_Effect_Load(g, conductivity=w['skin']), None, g.tag)
                dist = True
            if w.get('coat') is not None:
                m.register_load(mm.Insulation_Load(g, w['coat'][0], w['coat'][1]), None, g.tag)
                dist = True
        if dist:
            m.fix_distributed_loads()
    return m


def cplx(v):
    if isinstance(v, (list, tuple)):
        return complex(v[0], v[1])
    return complex(v)


def add_sources(m, srcs):
    import mininec.mininec as mm
    pm = None
    for s in srcs:
        v = cplx(s['v'])
        if 'pulse' in s:
            m.register_source(mm.Excitation(v), s['pulse'])
        else:
            if pm is None:
                pm = pulse_by_point(m)
            p = find_pulse(pm, s['at'], s.get('ends'))
            sg = np.sign(np.dot(orient(p), np.array(s['dir'], float)))
            assert sg != 0
            m.register_source(mm.Excitation(v * sg), p.idx)


def add_loads(m, loads):
    import mininec.mininec as mm
    pm = None
    for l in loads:
        kind = l.get('kind', 'z')
        if kind == 'z':
            ld = mm.Impedance_Load(cplx(l['z']))
        elif kind == 'rlc':
            ld = mm.Series_RLC_Load(*l['rlc'])
        elif kind == 'trap':
            ld = mm.Trap_Load(*l['rlc'])
        elif kind == 'laplace':
            ld = mm.Laplace_Load(a=l['a'], b=l['b'])
        else:
            raise ValueError(kind)
        if 'pulse' in l:
            m.register_load(ld, l['pulse'])
        elif 'at' in l:
            if pm is None:
                pm = pulse_by_point(m)
            m.register_load(ld, find_pulse(pm, l['at'], l.get('ends')).idx)
        elif l.get('all'):
            m.register_load(ld)


# ---------------------------------------------------------------- geometric pulse identity
# (tolerance matching, never rounding: rounded keys straddle a boundary once in ~1e7 coordinates)
def _rt(v, nd):
    return tuple(float(x) for x in (np.round(np.array(v, float), nd) + 0.0))


def ptol(m):
    return 1e-4 * m.min_seglen


def orient(p):
    v = np.array(p.ends[1], float) - np.array(p.ends[0], float)
    return v / np.linalg.norm(v)


def pulse_by_point(m):
    return (np.array([np.array(p.point, float) for p in m.pulses]), m, ptol(m))


def pulses_at(pm, at):
    P, m, tol = pm
    d = np.linalg.norm(P - np.array(at, float), axis=1)
    return [m.pulses[i] for i in np.where(d < tol)[0]]


def find_pulse(pm, at, ends=None):
    P, m, tol = pm
    c = pulses_at(pm, at)
    if ends is None:
        assert len(c) == 1, '%d pulses at %s' % (len(c), at)
        return c[0]
    e = [np.array(x, float) for x in ends]
    for p in c:
        q = [np.array(x, float) for x in p.ends]
        if (np.linalg.norm(q[0] - e[0]) < tol and np.linalg.norm(q[1] - e[1]) < tol) or \
           (np.linalg.norm(q[0] - e[1]) < tol and np.linalg.norm(q[1] - e[0]) < tol):
            return p
    raise KeyError('no pulse at %s with ends %s' % (at, ends))


class HC:
    """conductor currents per real half-segment: rows (point, unit direction away from the point,
    current flowing away from the point in that direction), pulses overlapping the same half summed"""

    def __init__(self, P, U, I, tol):
        self.P, self.U, self.I, self.tol = P, U, I, tol

    def __len__(self):
        return len(self.I)

    def lookup(self, pt, u):
        d = np.linalg.norm(self.P - np.array(pt, float), axis=1)
        e = np.linalg.norm(self.U - np.array(u, float), axis=1)
        k = np.where((d < self.tol) & (e < 1e-4))[0]
        if len(k) != 1:
            return None
        return self.I[k[0]]

    def transformed(self, R=None, t=None, s=1.0):
        P, U = self.P, self.U
        if R is not None:
            P, U = P @ R.T, U @ R.T
        if t is not None:
            P = P + np.array(t, float)
        P = P * s          # x -> s * (R x + t): scaling is applied last
        return HC(P, U, self.I, self.tol * s)

    def select(self, mask):
        return HC(self.P[mask], self.U[mask], self.I[mask], self.tol)

    def maxabs(self):
        return float(np.max(np.abs(self.I))) if len(self.I) else 0.0


def half_currents(m, current=None):
    cur = m.current if current is None else current
    tol = ptol(m)
    P, U, I = [], [], []
    for p in m.pulses:
        pt = np.array(p.point, float)
        for h in (0, 1):
            if p.ground[h]:
                continue
            v = np.array(p.ends[h], float) - pt
            P.append(pt)
            U.append(v / np.linalg.norm(v))
            I.append(cur[p.idx] * (1 if h == 1 else -1))
    P, U, I = np.array(P), np.array(U), np.array(I, complex)
    n = len(I)
    # merge identical halves (several pulses overlap the same end segment at k>=3 junctions)
    keep, acc = [], []
    used = np.zeros(n, bool)
    for i in range(n):
        if used[i]:
            continue
        same = (np.linalg.norm(P - P[i], axis=1) < tol) & (np.linalg.norm(U - U[i], axis=1) < 1e-4) & ~used
        used |= same
        keep.append(i)
        acc.append(I[same].sum())
    return HC(P[keep], U[keep], np.array(acc, complex), tol)


def cmp_half_currents(h0, h1):
    """max |difference| / max |current| with a one-to-one geometric match; None if no such match"""
    if len(h0) != len(h1):
        return None
    mx = h0.maxabs() or 1.0
    tol = max(h0.tol, h1.tol)
    w = 0.0
    seen = set()
    for i in range(len(h0)):
        d = np.linalg.norm(h1.P - h0.P[i], axis=1)
        e = np.linalg.norm(h1.U - h0.U[i], axis=1)
        k = np.where((d < tol) & (e < 1e-4))[0]
        if len(k) != 1 or k[0] in seen:
            return None
        seen.add(k[0])
        w = max(w, abs(h0.I[i] - h1.I[k[0]]))
    return w / mx


def cond_tol(m, base=5e-4):
    """tolerance of the symmetry properties: base up to cond 1e3, 5e-7*cond up to 1e5, else None"""
    c = float(np.linalg.cond(m.Z))
    if c <= 1e3:
        return base, c
    if c <= 1e5:
        return 5e-7 * c, c
    return None, c


# ---------------------------------------------------------------- domain predicate (case geometry only)
def straight_wires(case):
    return [w for w in case['wires'] if w.get('kind', 'wire') == 'wire']


def domain(case, lam, ground=False, min_angle=40.0, sep_factor=2.0, joined_neighbour_ok=True,
           one_per_ground_point=True, seg_lo=1 / 200., seg_hi=1 / 10., thin=8.0, ratio=2.1,
           rise_deg=20.0, margin=True):
    """Returns None if the straight-wire case obeys the thin-wire modelling rules quoted in
    the property quantifiers, else a short reason. With margin=True borderline cases are
    rejected too (angle within 2 deg, distance within 5 %)."""
    ws = straight_wires(case)
    mg_a = 2.0 if margin else 0.0
    mg_d = 1.05 if margin else 1.0
    ends = [(np.array(w['p1']), np.array(w['p2'])) for w in ws]
    L = [np.linalg.norm(b - a) / w['n'] for (a, b), w in zip(ends, ws)]
    Lmin = min(L)
    tol = 1e-3 * Lmin
    for l, w in zip(L, ws):
        if not (lam * seg_lo <= l <= lam * seg_hi):
            return 'seglen'
        if l < thin * w['r']:
            return 'thick'

    def same(p, q):
        return np.linalg.norm(p - q) < tol
    n = len(ws)
    joined = [[False] * n for _ in range(n)]
    for i, j in itertools.combinations(range(n), 2):
        sh = [(a, b) for a in (0, 1) for b in (0, 1) if same(ends[i][a], ends[j][b])]
        if len(sh) > 1:
            return 'parallel-duplicate'
        if sh:
            joined[i][j] = joined[j][i] = True
            a, b = sh[0]
            u1 = ends[i][1 - a] - ends[i][a]
            u2 = ends[j][1 - b] - ends[j][b]
            ang = math.degrees(math.acos(max(-1, min(1, u1 @ u2 / np.linalg.norm(u1) / np.linalg.norm(u2)))))
            if ang < min_angle + mg_a:
                return 'angle'
            if max(L[i], L[j]) / min(L[i], L[j]) > ratio - (0.1 if margin else 0):
                return 'ratio'
    for i, j in itertools.combinations(range(n), 2):
        if joined[i][j]:
            continue
        if joined_neighbour_ok and any(joined[i][k] and joined[k][j] for k in range(n)):
            # joined through a common neighbour: may be closer (statement of C06)
            d = seg_seg_dist(ends[i][0], ends[i][1], ends[j][0], ends[j][1])
            if d < 0.5 * max(L[i], L[j]):
                return 'near-crossing'
            continue
        d = seg_seg_dist(ends[i][0], ends[i][1], ends[j][0], ends[j][1])
        if d < sep_factor * mg_d * max(L[i], L[j]):
            return 'separation'
    if ground:
        gp = []
        for (a, b), l in zip(ends, L):
            za, zb = a[2], b[2]
            if min(za, zb) < -tol:
                return 'below-ground'
            ga, gb = abs(za) < tol, abs(zb) < tol
            if ga and gb:
                return 'both-grounded'
            if ga or gb:
                dvec = b - a
                rise = math.degrees(math.asin(abs(dvec[2]) / np.linalg.norm(dvec)))
                if rise < rise_deg + mg_a:
                    return 'rise'
                gp.append(_rt(a if ga else b, 6))  # exact lattice points, rounding only normalises -0.0
            elif min(za, zb) < mg_d * l:
                return 'low'
        if one_per_ground_point and len(gp) != len(set(gp)):
            return 'ground-point-shared'
    return None


def junction_degree(case):
    """max number of wire ends meeting in one point"""
    ws = straight_wires(case)
    pts = {}
    for w in ws:
        for p in (w['p1'], w['p2']):
            k = _rt(p, 6)
            pts[k] = pts.get(k, 0) + 1
    return max(pts.values()) if pts else 0


def pulse_geometry_violations(m):
    """every pulse must sit on a joint of the two segments it is reported with, and its far ends must be the other
    ends of exactly those segments (mirrored for the image half of a grounded pulse) - derived from the segment
    tables of the geometry objects, not from the pulse itself"""
    out = []
    mir = np.array([1., 1., -1.])
    for p in m.pulses:
        pt = np.array(p.point, float)
        for h in (0, 1):
            s = p.segs[h]
            if s.geobj is not p.geo[h]:
                out.append(('PULSE-SEGOWNER', 'pulse %d half %d: segment belongs to another object' % (p.idx + 1, h)))
                continue
            if not any(s is x for x in s.geobj.segments):
                out.append(('PULSE-SEGOWNER', 'pulse %d half %d: segment not in the segment table of its object' % (p.idx + 1, h)))
            a, b = np.array(s.p1, float), np.array(s.p2, float)
            L = np.linalg.norm(b - a)
            tol = 2e-3 * L
            da, db = np.linalg.norm(pt - a), np.linalg.norm(pt - b)
            if min(da, db) > tol:
                out.append(('PULSE-JOINT', 'pulse %d: point %s is not an end of its segment %d (%s - %s)' % (p.idx + 1, np.round(pt, 5), h, np.round(a, 5), np.round(b, 5))))
                continue
            far = b if da <= db else a
            if p.ground[h]:
                far = far * mir
            e = np.array(p.ends[h], float)
            if np.linalg.norm(e - far) > tol:
                out.append(('PULSE-FAREND', 'pulse %d: far end %s of half %d is not the other end %s of its segment' % (p.idx + 1, np.round(e, 5), h, np.round(far, 5))))
    return out


def input_power(m):
    """time-average power delivered by the sources, from the voltages applied and the solved currents only:
    sum of Re(V I*)/2 (independent of Excitation.power / Mininec.power)"""
    return float(sum(0.5 * (complex(s.voltage) * np.conj(m.current[s.idx])).real for s in m.sources))


def rotate_voltages(srcs, c=0.6 - 0.8j):
    """all source voltages multiplied by a complex constant of magnitude 1: relative quantities are unchanged,
    but no voltage is purely real any more"""
    out = []
    for s in srcs:
        v = cplx(s['v']) * c
        out.append(dict(s, v=[v.real, v.imag]))
    return out
