"""C17 Pulse addressing: sources and loads act on exactly the pulse the user named."""
import itertools, re
import numpy as np
from mcx import geom, cli
from mcx.ref import report

PID = 'C17'
CHUNK = 1
TOLERANCE = 'identical results for both addressing forms (1e-12 relative); exact pulse numbers in the listings'
RULE = ('Structures of 3 objects (chains, stars, grounded wires, single-segment wires owning one junction or ground '
        'pulse, arc + wire + helix) x wire orders x orientations (quick: 2 flip patterns, thorough: all 2^n) x tag '
        'assignments {automatic, consecutive, 2 permutations, sparse 7/3/auto} x EVERY pulse of the geometry table '
        'addressed as absolute number p and as k-th pulse of tag t, for one source and for one load, plus all-of-object '
        'for every object and all-of-antenna. Ground truth is the printed geometry table. Oracles: blocks in tag order, '
        'numbers 1..N; both forms give identical feed impedance and name p in the source / load listing; junction pulses '
        'sit in the block of the later-tagged object; all-forms shift each diagonal element of Z exactly once. '
        'State = (structure description, tag assignment, pulse, form); transition = one run of main(). '
        'Non-trivial: tags are not 1..n in listing order or the pulse is a junction/ground pulse.')
ASSUMPTIONS = ['the printed geometry table is the reference for pulse numbers (statement)', 'reports are produced in-process by main()']
TAGSETS = [None, (1, 2, 3), (2, 3, 1), (3, 1, 2), (7, 3, None)]


RULE = RULE + ' Two sources are also given with one in each addressing form, both orders.'
RULE = RULE + ' A 50 Ohm load attached to one pulse in both addressing forms is compared with a 100 Ohm load.'


def bounds(tier, seed):
    return dict(variant=geom.variant(seed), tagsets=[str(t) for t in TAGSETS], flips='2 patterns' if tier == 'quick' else 'all 8')


def structures(seed):
    out = []
    for ground in (False, True):
        P, f, lam = geom.lattice(seed, ground=ground)
        P = [p * 0.5 for p in P]          # single-segment wires on the edges: keep every segment below lambda/10
        env = 'ideal' if ground else 'free'
        r = 1e-4 * lam
        if not ground:
            out.append((env, f, [(P[0], P[1], 3), (P[1], P[4], 1), (P[4], P[2], 2)]))      # chain with 1-segment middle wire
            out.append((env, f, [(P[0], P[1], 2), (P[0], P[2], 1), (P[0], P[3], 3)]))      # star, one 1-segment spoke
            out.append((env, f, [(P[1], P[0], 1), (P[2], P[0], 1), (P[0], P[3], 2)]))      # two 1-segment wires end 2 on the hub
        else:
            out.append((env, f, [(P[0], P[2], 3), (P[2], P[3], 1), (P[1], P[3], 2)]))      # two grounded wires with a 1-segment bridge
            out.append((env, f, [(P[0], P[2], 1), (P[2], P[4], 2), (P[1], P[3], 1)]))      # 1-segment grounded wires (own 1 ground pulse)
    return out


def cases(tier, seed):
    flipsets = [(0, 0, 0), (1, 0, 1)] if tier == 'quick' else list(itertools.product((0, 1), repeat=3))
    for si, (env, f, ws) in enumerate(structures(seed)):
        for order in itertools.permutations(range(3)):
            for flips in flipsets:
                for tags in TAGSETS:
                    wires = []
                    for k, i in enumerate(order):
                        a, b, n = ws[i]
                        if flips[k]:
                            a, b = b, a
                        w = geom.wire(a, b, n, 1e-4 * geom.C_MININEC / f)
                        if tags is not None and tags[k] is not None:
                            w['tag'] = tags[k]
                        wires.append(w)
                    yield dict(kind='wires', env=env, f=f, wires=wires, name='S%d|%s|%s|%s' % (si, order, flips, tags))
    # arc + helix + wire, explicit / sparse tags, all listing orders are equivalent on the command line (kinds are separate options)
    f = 14.2          # fixed geometry in metres: fixed frequency (segments stay short whatever the seed)
    # tagged and untagged objects mixed (untagged ones are numbered after the largest explicit tag; on the command line
    # arcs are read before helices before wires)
    for tags in ((1, 2, 3), (3, 1, 2), (2, 3, 1), (5, 9, 2), None, (None, None, 1), (None, 2, 1), (None, 1, None), (4, None, 1)):
        for wflip in (0, 1):
            arc = dict(kind='arc', n=4, radius=0.5, ang1=0., ang2=90., r=1e-3)
            hx = dict(kind='helix', n=6, length=0.6, turnlen=0.3, r=1e-3, radii=[0.1, 0.1])
            a, b = np.array([0., 0., 0.5]), np.array([0.4, 0.6, 0.9])      # wire from the arc's end 2
            w = geom.wire(b, a, 2, 1e-3) if wflip else geom.wire(a, b, 2, 1e-3)
            objs = [arc, hx, w]
            if tags is not None:
                for o, t in zip(objs, tags):
                    if t is not None:
                        o['tag'] = t
            # the helix is moved aside by its tag: explicit, or the automatic one it gets (after the largest explicit tag,
            # arcs being numbered before helices)
            if tags is None:
                htag = 2
            elif tags[1] is not None:
                htag = tags[1]
            else:
                htag = max(t for t in tags if t is not None) + (2 if tags[0] is None else 1)
            yield dict(kind='mixed', env='free', f=f, wires=objs, transforms=[['translate', 1.0, [3., 0., 0.], htag]] ,
                       name='M|%s|%d' % (tags, wflip))


def run(argv):
    kind, r, out, err = cli.run_main(argv)
    if kind != 'ret' or r is not None:
        return None, '%s %s %s' % (kind, r, (out + err)[-200:])
    return out, ''


def feed_z(out):
    sd = report.parse_source_data(out)
    return sd[0]['impedance'] if sd else None


def evaluate(c):
    viol = []
    base = cli.argv(dict(f=c['f'], env=c['env'], wires=c['wires'], transforms=c.get('transforms', [])), ['--option=none'])
    out, diag = run(base + ['--excitation-pulse=1'])
    if out is None:
        return dict(viol=[('REJECTED', diag)])
    blocks = report.parse_geometry(out)
    tags = [b['tag'] for b in blocks]
    if tags != sorted(tags) or len(set(tags)) != len(tags):
        viol.append(('BLOCK-ORDER', 'geometry blocks not in ascending order of distinct tags: %s' % tags))
    nums = [r[6] for b in blocks for r in b['rows']]
    N = len(nums)
    if nums != list(range(1, N + 1)):
        viol.append(('NUMBERS', 'pulse numbers in table order: %s' % nums))
    for b in blocks:
        for r in b['rows']:
            c1, c2 = abs(r[4]), abs(r[5])
            # a 0 marks a free end (printed on the outermost pulses and on 1-segment wires)
            if (c1 and c2 and max(c1, c2) != b['tag']) or max(c1, c2) > b['tag']:
                viol.append(('JUNCTION-OWNER', 'pulse %d (connections %d %d) listed in block %d, not under the later-tagged object' % (r[6], r[4], r[5], b['tag'])))
    runs = 1
    canon, nontriv = [], []
    # model without loads for the all-forms
    m0, d0 = cli.build_main(base + ['--excitation-pulse=1'])
    m0.compute()
    # the END1 / END2 columns of each row name (by tag; the sign carries direction / ground, 0 marks a free end) the objects whose
    # segments the pulse is reported with: the two halves of the pulse in the model
    allrows = [(b['tag'], r) for b in blocks for r in b['rows']]
    if len(allrows) == len(m0.pulses):
        for (btag, r), p_ in zip(allrows, m0.pulses):
            for h in (0, 1):
                want = p_.geo[h].tag
                if r[4 + h] != 0 and abs(r[4 + h]) != want:
                    viol.append(('END-COLUMN', 'pulse %d (block %d): END%d column %d, but that half of the pulse lies on object %d' % (r[6], btag, h + 1, r[4 + h], want)))
    Z0 = m0.Z.copy()
    w = -1j * 50.0 / m0.m
    gndp = set(p.idx for p in m0.pulses if p.ground.any())
    feed_other = {}
    for b in blocks:
        for k, r in enumerate(b['rows']):
            p = r[6]
            special = (r[4] != r[5])
            # --- source by absolute number and by (k, tag)
            oa, da = run(base + ['--excitation-pulse=%d' % p])
            ob, db = run(base + ['--excitation-pulse=%d,%d' % (k + 1, b['tag'])])
            runs += 2
            if oa is None or ob is None:
                viol.append(('SRC-REJECTED', 'pulse %d / %d,%d: %s %s' % (p, k + 1, b['tag'], da, db)))
            else:
                za, zb = feed_z(oa), feed_z(ob)
                if za is None or zb is None or abs(za - zb) > 1e-9 * abs(za):
                    viol.append(('SRC-FORMS', 'source on pulse %d gives Z=%s, as %d,%d gives Z=%s' % (p, za, k + 1, b['tag'], zb)))
                for o, form in ((oa, 'abs'), (ob, 'rel')):
                    lst = report.parse_sources(o)
                    sd = report.parse_source_data(o)
                    if [x[0] for x in lst] != [str(p)] or [x['pulse'] for x in sd] != [p]:
                        viol.append(('SRC-LISTING-' + form, 'source addressed as %s: listing names %s / %s, expected pulse %d'
                                     % (p if form == 'abs' else (k + 1, b['tag']), [x[0] for x in lst], [x['pulse'] for x in sd], p)))
            # --- load by absolute number and by (k, tag); feed on another pulse
            fp = 1 if p != 1 else (2 if N >= 2 else 1)
            la, da = run(base + ['--excitation-pulse=%d' % fp, '--load=50', '--attach-load=1,%d' % p])
            lb, db = run(base + ['--excitation-pulse=%d' % fp, '--load=50', '--attach-load=1,%d,%d' % (k + 1, b['tag'])])
            runs += 2
            if la is None or lb is None:
                viol.append(('LOAD-REJECTED', 'pulse %d / %d,%d: %s %s' % (p, k + 1, b['tag'], da, db)))
            else:
                za, zb = feed_z(la), feed_z(lb)
                if abs(za - zb) > 1e-9 * abs(za):
                    viol.append(('LOAD-FORMS', 'load on pulse %d gives Z=%s, as %d,%d gives Z=%s' % (p, za, k + 1, b['tag'], zb)))
                for o, form in ((la, 'abs'), (lb, 'rel')):
                    n, imp, lap = report.parse_loads(o)
                    if n != 1 or [x[0] for x in imp] != [p]:
                        viol.append(('LOAD-LISTING-' + form, 'load on pulse %d (%s form): listing %s (count %s)' % (p, form, imp, n)))
            # the same load named once in each form on the same pulse: both attachments count (a 50 Ohm load twice = 100 Ohm)
            if k == 0:
                lc, dc = run(base + ['--excitation-pulse=%d' % fp, '--load=50', '--attach-load=1,%d' % p, '--attach-load=1,%d,%d' % (k + 1, b['tag'])])
                ld_, dd = run(base + ['--excitation-pulse=%d' % fp, '--load=100', '--attach-load=1,%d' % p])
                runs += 2
                if lc is None or ld_ is None:
                    viol.append(('LOAD-TWICE-REJECTED', 'pulse %d named as %d and as %d,%d: %s %s' % (p, p, k + 1, b['tag'], dc, dd)))
                else:
                    zc, zd = feed_z(lc), feed_z(ld_)
                    n_, imp_, lap_ = report.parse_loads(lc)
                    if abs(zc - zd) > 1e-9 * abs(zd) or [x[0] for x in imp_] != [p, p]:
                        viol.append(('LOAD-TWICE', 'a 50 Ohm load attached to pulse %d as %d and as %d,%d: Z=%s, listing %s; a 100 Ohm load there gives Z=%s'
                                     % (p, p, k + 1, b['tag'], zc, [x[0] for x in imp_], zd)))
            canon.append('%s|p%d' % (c['name'], p))
            nontriv.append(bool(special or tags != list(range(1, len(tags) + 1))))
    # --- two sources named in the tag-relative form with the SAME k on two objects (a phased array fed at the same pulse of
    # each element), in both orders, against the absolute form: same source pulses, same feed impedances
    two = [b for b in blocks if b['rows']][:2]
    if len(two) == 2:
        k2 = 1
        pa, pb = two[0]['rows'][k2 - 1][6], two[1]['rows'][k2 - 1][6]
        volts = ['--excitation-voltage=1', '--excitation-voltage=0.5-2j']
        forms = {'abs': ['--excitation-pulse=%d' % pa, '--excitation-pulse=%d' % pb],
                 'rel': ['--excitation-pulse=%d,%d' % (k2, two[0]['tag']), '--excitation-pulse=%d,%d' % (k2, two[1]['tag'])],
                 # one source in each form (a tag-relative source says nothing about the sources named after it)
                 'rel+abs': ['--excitation-pulse=%d,%d' % (k2, two[0]['tag']), '--excitation-pulse=%d' % pb],
                 'abs+rel': ['--excitation-pulse=%d' % pa, '--excitation-pulse=%d,%d' % (k2, two[1]['tag'])]}
        res = {}
        for fn, ex in forms.items():
            for order in (0, 1):
                a_ = [ex[0], volts[0], ex[1], volts[1]] if order == 0 else [ex[1], volts[1], ex[0], volts[0]]
                o_, d_ = run(base + a_)
                runs += 1
                if o_ is None:
                    # two sources may exchange power so that the net input power is not positive: a legitimate diagnostic,
                    # but then for every way of naming the same two sources
                    res[(fn, order)] = 'rejected' if 'power is not positive' in d_ else 'rejected: ' + d_[:60]
                    continue
                sd = report.parse_source_data(o_)
                res[(fn, order)] = sorted(((x['pulse'], x['impedance']) for x in sd), key=lambda t_: (t_[0], t_[1].real, t_[1].imag))
        ref = res.get(('abs', 0))
        for key, val in res.items():
            if isinstance(ref, str) or isinstance(val, str):
                if val != ref or val != 'rejected':
                    viol.append(('SRC2-FORMS', 'two sources on pulses %d and %d given in %s form, order %d: %s, absolute form: %s' % (pa, pb, key[0], key[1], val, ref)))
                continue
            if ref is None or [x[0] for x in val] != sorted([pa, pb]) or len(val) != len(ref) or any(abs(a[1] - b[1]) > 1e-6 * abs(b[1]) for a, b in zip(val, ref)):
                viol.append(('SRC2-FORMS', 'two sources on pulses %d and %d given in %s form, order %d: source data %s, absolute form gives %s' % (pa, pb, key[0], key[1], val, ref)))
        canon.append('%s|two-sources' % c['name'])
        nontriv.append(True)
    # --- the writer's tag-relative form: load 1 on the odd, load 2 on the even pulse numbers (absolute form); the option
    # list written with per-object attachments must name every pulse as (row k of its block, block tag)
    rowsall = [(b['tag'], k + 1, r[6]) for b in blocks for k, r in enumerate(b['rows'])]
    att = ['--attach-load=%d,%d' % (1 if p_ % 2 else 2, p_) for t_, k_, p_ in rowsall]
    mw, dw = cli.build_main(base + ['--excitation-pulse=1', '--load=50', '--load=20+30j'] + att) if N >= 2 else (None, 'skip')
    runs += 1
    if mw is None:
        if N >= 2:
            viol.append(('WRITE-REJECTED', 'two loads on alternating pulses: %s' % dw))
    else:
        import re as _re
        txt = mw.as_cmdline(load_by_geo=True)
        got = set()
        for l_, k_, t_ in _re.findall(r'--attach-load=(\d+),(\d+|all),(\d+)', txt):
            if k_ == 'all':
                got |= set((int(l_), int(t_), kk) for tt, kk, pp in rowsall if tt == int(t_))
            else:
                got.add((int(l_), int(t_), int(k_)))
        for l_, p_ in _re.findall(r'--attach-load=(\d+),(\d+)\s*$', txt, flags=_re.M):
            got |= set((int(l_), tt, kk) for tt, kk, pp in rowsall if pp == int(p_))
        want_rel = set((1 if p_ % 2 else 2, t_, k_) for t_, k_, p_ in rowsall)
        if got != want_rel:
            viol.append(('WRITE-REL', 'option list written with per-object attachments names (load, tag, k) %s, the geometry table gives %s'
                         % (sorted(got - want_rel), sorted(want_rel - got))))
        canon.append('%s|write-rel' % c['name'])
        nontriv.append(True)
    # --- all pulses of an object, all pulses of the antenna
    forms = [('--attach-load=1,all,%d' % b['tag'], [r[6] for r in b['rows']]) for b in blocks] + [('--attach-load=1,all', nums)]
    for opt, want in forms:
        m, d = cli.build_main(base + ['--excitation-pulse=1', '--load=50', opt])
        runs += 1
        if m is None:
            if want:
                viol.append(('ALL-REJECTED', '%s: %s' % (opt, d)))
            continue
        m.compute()
        D = m.Z - Z0
        off = D - np.diag(np.diag(D))
        if np.abs(off).max() > 1e-12 * np.abs(Z0).max():
            viol.append(('ALL-OFFDIAG', '%s changes off-diagonal matrix terms' % opt))
        got = []
        for i in range(N):
            x = D[i, i] / (w * (2 if i in gndp else 1))
            if abs(x) < 1e-9:
                continue
            if abs(x - round(x.real)) > 1e-9:
                viol.append(('ALL-WEIGHT', '%s: diagonal shift of pulse %d is %.6g load weights' % (opt, i + 1, x.real)))
            got += [i + 1] * int(round(x.real))
        if got != sorted(want):
            viol.append(('ALL-PULSES', '%s loads pulses %s, expected each of %s exactly once' % (opt, got, sorted(want))))
        txt = m.loads_as_mininec()
        n, imp, lap = report.parse_loads(txt)
        if sorted(x[0] for x in imp) != sorted(want) or n != len(want):
            viol.append(('ALL-LISTING', '%s: load listing names %s (count %s), expected %s' % (opt, sorted(x[0] for x in imp), n, sorted(want))))
        canon.append('%s|%s' % (c['name'], opt))
        nontriv.append(True)
    # --- distributed loads are "all pulses of the antenna / of an object" by construction: whole antenna, every object
    # by tag, one object by tag. Each pulse with a conductor half on a loaded object is loaded exactly once per load kind
    rmax = max(g.r_orig for g in m0.geo)
    halves = {}
    for p_ in m0.pulses:
        for h in (0, 1):
            if not p_.ground[h]:
                halves.setdefault(p_.geo[h].tag, set()).add(p_.idx + 1)
    dforms = [(['--skin-effect-conductivity=1e6'], nums, 1), (['--insulation-load=%r,2.5' % (3 * rmax)], nums, 1),
              (['--skin-effect-conductivity=1e6', '--insulation-load=%r,2.5' % (3 * rmax)], nums, 2),
              (['--skin-effect-conductivity=%g,%d' % (1e6 * (i + 1), t) for i, t in enumerate(tags)], nums, 1),
              (['--insulation-load=%r,%g,%d' % (3 * rmax, 2.5 + i, t) for i, t in enumerate(tags)], nums, 1)]
    for t in tags:
        dforms.append((['--skin-effect-conductivity=1e6,%d' % t], sorted(halves.get(t, ())), 1))
    for opts, want, kinds in dforms:
        m, d = cli.build_main(base + ['--excitation-pulse=1'] + opts)
        runs += 1
        if m is None:
            if want:
                viol.append(('DIST-REJECTED', '%s: %s' % (opts, d)))
            continue
        import mininec.mininec as mm
        for cls in (mm.Skin_Effect_Load, mm.Insulation_Load):
            cnt = {}
            for ld in m.loads:
                if isinstance(ld, cls):
                    for q in ld.pulses:
                        cnt[q.idx + 1] = cnt.get(q.idx + 1, 0) + 1
            if not cnt:
                continue
            # a junction pulse of two separately loaded objects is attached to both loads (each gives its own half);
            # never more often than it has conductor halves on loaded objects, never twice to one load
            for ld in m.loads:
                if isinstance(ld, cls):
                    ids = [q.idx + 1 for q in ld.pulses]
                    if len(ids) != len(set(ids)):
                        viol.append(('DIST-TWICE', '%s: a %s names a pulse more than once: %s' % (opts, cls.__name__, sorted(ids))))
            if sorted(cnt) != sorted(want):
                viol.append(('DIST-PULSES', '%s: %s attached to pulses %s, expected %s' % (opts, cls.__name__, sorted(cnt), sorted(want))))
        # the diagonal shift of every pulse equals the sum over its conductor halves of the per-length value of the
        # object the half lies on (per-object loads evaluated through the load object's own impedance for an
        # interior pulse of that object is C08's business); here: listing names each wanted pulse once per kind
        m.compute()
        n, imp, lap = report.parse_loads(m.loads_as_mininec())
        names = sorted(x[0] for x in imp)
        exp = sorted(list(want) * kinds)
        if names != exp:
            viol.append(('DIST-LISTING', '%s: load listing names pulses %s, expected %s' % (opts, names, exp)))
        canon.append('%s|%s' % (c['name'], '+'.join(o.split('=')[0][2:6] + o.split('=')[1][-2:] for o in opts)))
        nontriv.append(True)
    return dict(viol=viol[:8], canon=canon, nontriv=nontriv, trans=runs, traces=len(canon), evals=runs, dev=0.0,
                outcome='N=%d' % N)
