"""C19 Report text faithfully carries the computed values."""
import itertools, math, re
import numpy as np
from mcx import geom
from mcx.ref import report
from mcx.props import c14

PID = 'C19'
CHUNK = 2
TOLERANCE = '5e-6 relative, or 1e-6 absolute for fixed-point fields; magnitude/phase columns consistent with real/imaginary to print precision'
RULE = ('(a) format_float on the full product of ~2000 mantissas (dense around rounding and power-of-ten boundaries) x '
        'exponents -30..12 x sign x both modes: every string is read back. (b) whole reports of 11 models (every load '
        'kind, ground, tapered wire, helix) x source voltages scaled by 10^e, e = -12..+9 step 3, with far field (dBi and '
        'V/m at 2 power/distance settings) and near field: every numeric field of geometry table, source listing, load '
        'listing, SOURCE DATA, CURRENT DATA, pattern tables and near-field blocks is parsed and compared with the value '
        'in the model; magnitude/phase against real/imaginary; structural completeness (rows per pulse and block, source '
        'blocks, load lines). State = (mantissa, exponent, mode) or (model, scale, field); transition = one formatted '
        'value read back. Non-trivial: value is not zero.')
ASSUMPTIONS = ['fields printed in fixed-point notation are judged by the 1e-6 absolute clause, fields in E notation by the 5e-6 relative clause']


def mantissas():
    ms = set()
    for b in (1.0, 1.5, 2.0, 2.5, 3.3333333, 5.0, 7.5, 9.0, 9.9, 9.99, 9.999, 9.9999, 9.99999, 9.999999, 1.2345678, 4.9999995, 9.4999995):
        for d in range(-12, 13):
            ms.add(b + d * 5e-8)
            ms.add(b + d * 1e-7)
    for k in range(10):
        for d in (-6, -5, -4, -1, 0, 1, 4, 5, 6):
            ms.add(9.99999 + k * 1e-6 + d * 1e-8)
            ms.add(1.0 + k * 1e-6 + d * 1e-8)
    for i in range(1000):
        ms.add(1.0 + 9.0 * ((i * 0.6180339887498949) % 1.0))
    return sorted(m for m in ms if 1.0 <= m < 10.0)


MANT = mantissas()


def bounds(tier, seed):
    return dict(mantissas=len(MANT), exponents='-30..12', scales='10^-12..10^9 step 3')


def cases(tier, seed):
    for e in range(-30, 13):
        yield dict(kind='ff', exp=e)
    scales = list(range(-12, 10, 3))
    for name in c14.MODELS:
        for e in scales:
            yield dict(kind='report', model=name, scale=e)
        # purely real negative, purely imaginary and unit-magnitude voltages (the listing's magnitude / phase line)
        for v in ((-1., 0.), (-2.5, 0.), (0., 1.), (0., -3.), (0.6, -0.8)):
            yield dict(kind='report', model=name, scale=0, volt=list(v))


def readback_ok(s, v):
    """the documented precision: 5e-6 relative, or 1e-6 absolute for fixed-point fields"""
    try:
        x = float(s)
    except ValueError:
        return False, None
    if abs(x - v) <= 5e-6 * abs(v):
        return True, x
    if 'E' not in s.upper() and abs(x - v) <= 1e-6:
        return True, x
    return False, x


def evaluate(c):
    from mininec.util import format_float
    import mininec.mininec as mm
    viol, canon, nontriv = [], [], []
    ev = 0
    if c['kind'] == 'ff':
        e = c['exp']
        bad = {}
        for m in MANT:
            for sg in (1, -1):
                v = sg * m * 10.0 ** e
                for mode in (0, 1):
                    ev += 1
                    try:
                        s = format_float([v], use_e=mode)[0]
                    except Exception as ex:
                        bad.setdefault('FORMAT-CRASH:%s' % type(ex).__name__, 'format_float(%r, use_e=%d) raises %r' % (v, mode, ex))
                        continue
                    ok, x = readback_ok(s.strip(), v)
                    if not ok:
                        bad.setdefault('FORMAT-FLOAT-mode%d' % mode, 'format_float(%r, use_e=%d) = %r reads back as %r' % (v, mode, s, x))
        canon = ['ff|%d|%d' % (e, i) for i in range(4)]
        return dict(viol=list(bad.items()), canon=canon, nontriv=True, trans=ev, traces=ev, evals=ev, dev=0.0, outcome='format_float')
    # ---- whole report
    name, sc = c['model'], 10.0 ** c['scale']
    m = c14.model(name)
    if name == 'rev-e2e2':
        m.register_source(mm.Excitation(0.5 - 0.8j), 5)       # a second source: every SOURCE DATA block carries its own values
    if c.get('volt'):
        # sources rebuilt through the constructor with the given complex voltage
        idxs = [s.idx for s in m.sources]
        m.sources = []
        for i_ in idxs:
            m.register_source(mm.Excitation(complex(*c['volt'])), i_)
    else:
        idxs = [s.idx for s in m.sources]
        volts = [s.voltage * sc for s in m.sources]
        m.sources = []
        for i_, v_ in zip(idxs, volts):
            m.register_source(mm.Excitation(complex(v_)), i_)
    lam = geom.C_MININEC / m.f
    if name == 'laplace':
        # a second, order-4 rational load (two lossy traps in series written as one function) on another pulse
        m.register_load(mm.Laplace_Load(a=[1., 1.5e-10, 1.5e-16, 7.5e-27, 2.5e-33], b=[2., 3.0000003e-06, 4.5e-16, 2.25e-22, 0.]), 1)
    m.compute()
    label = '%s x1e%d%s' % (name, c['scale'], ' V=%s' % c['volt'] if c.get('volt') else '')

    def chk(sig, s, v, what):
        nonlocal ev
        ev += 1
        ok, x = readback_ok(s if isinstance(s, str) else repr(s), v)
        if not ok:
            # the V/m table is printed with %.3E / two decimals: a listed finding as long as the value is right to that precision
            if sig == 'VM-MAG' and x is not None and abs(x - v) <= 5.0001e-4 * abs(v):
                sig = 'VM-MAG-4digits'
            if sig == 'VM-PHASE' and x is not None and abs(x - v) <= 5.0001e-3:
                sig = 'VM-PHASE-2decimals'
            viol.append((sig, '%s: %s printed as %s, value %r' % (label, what, s, v)))
    zen, azi = mm.Angle(5., 40., 3), mm.Angle(10., 100., 3)
    m.compute_far_field(zen, azi)
    m.compute_near_field([0.3 * lam, 0.2 * lam, 0.4 * lam], [0.1 * lam, 0.1 * lam, 0.1 * lam], [2, 1, 1])
    text = m.as_mininec(set(['far-field', 'near-field']))
    # raw tokens (strings) are needed to decide fixed-point vs E notation
    # --- geometry table
    geo = report.parse_geometry(text)
    rawrows = [l.split() for l in text[text.index('**** ANTENNA GEOMETRY'):text.index('NO. OF SOURCES')].split('\n') if len(l.split()) == 7 and l.split()[-1].isdigit()]
    if [b['tag'] for b in geo] != [g.tag for g in m.geo]:
        viol.append(('STRUCT-GEO-BLOCKS', '%s: geometry blocks %s, objects %s' % (label, [b['tag'] for b in geo], [g.tag for g in m.geo])))
    k = 0
    for b, g in zip(geo, m.geo):
        if [r[6] for r in b['rows']] != [p.idx + 1 for p in g.pulses]:
            viol.append(('STRUCT-GEO-ROWS', '%s: block %d lists pulses %s, object has %s' % (label, b['tag'], [r[6] for r in b['rows']], [p.idx + 1 for p in g.pulses])))
            continue
        for r, p in zip(b['rows'], g.pulses):
            raw = rawrows[k]
            k += 1
            for i in range(3):
                chk('GEO-COORD', raw[i], float(p.point[i]), 'pulse %d coordinate %d' % (p.idx + 1, i))
            chk('GEO-RADIUS', raw[3], p.geobj.r_orig, 'pulse %d radius' % (p.idx + 1))
    # --- sources
    lst = report.parse_sources(text)
    if len(lst) != len(m.sources):
        viol.append(('STRUCT-SOURCES', '%s: %d source lines for %d sources' % (label, len(lst), len(m.sources))))
    for (ps, ms_, phs), s in zip(lst, m.sources):
        if int(ps) != s.idx + 1:
            viol.append(('SRC-LIST-PULSE', '%s: source listing pulse %s, expected %d' % (label, ps, s.idx + 1)))
        chk('SRC-LIST-MAGNITUDE', ms_, abs(s.voltage), 'source magnitude')
        chk('SRC-LIST-PHASE', phs, math.degrees(cmath_phase(s.voltage)), 'source phase (degrees)')
    sd = report.parse_source_data(text)
    rawsd = re.findall(r'(VOLTAGE|CURRENT|IMPEDANCE) = \(\s*(\S+)\s*,\s*(\S+)\s*J\)', text)
    rawpw = re.findall(r'POWER =\s*(\S+)\s+WATTS', text)
    if len(sd) != len(m.sources) or len(rawsd) != 3 * len(m.sources) or len(rawpw) != len(m.sources):
        viol.append(('STRUCT-SOURCE-DATA', '%s: %d source blocks for %d sources' % (label, len(sd), len(m.sources))))
    else:
        for i, s in enumerate(m.sources):
            cur = m.current[s.idx]
            vals = dict(VOLTAGE=s.voltage, CURRENT=cur, IMPEDANCE=s.voltage / cur)
            for j in range(3):
                key, a, b_ = rawsd[3 * i + j]
                chk('SRCDATA-' + key, a, vals[key].real, 'source %d %s real' % (i + 1, key))
                chk('SRCDATA-' + key, b_, vals[key].imag, 'source %d %s imaginary' % (i + 1, key))
            chk('SRCDATA-POWER', rawpw[i], 0.5 * (s.voltage * np.conj(cur)).real, 'source %d power' % (i + 1))
    # --- loads
    n, imp, lap = report.parse_loads(text)
    nl = sum(len(l.pulses) for l in m.loads)
    if n != nl or len(imp) + len(lap) != nl:
        viol.append(('STRUCT-LOADS', '%s: NUMBER OF LOADS %s, %d load lines, %d loaded pulses' % (label, n, len(imp) + len(lap), nl)))
    rawl = re.findall(r'PULSE NO\.,RESISTANCE,REACTANCE:\s*(\d+)\s*,\s*(\S+)\s*,\s*(\S+)', text)
    exp = [(p.idx + 1, l.impedance(m.f, p)) for l in m.loads if not isinstance(l, mm.Laplace_Load) for p in l.pulses]
    if len(rawl) == len(exp):
        for (ps, a, b_), (pe, z) in zip(rawl, exp):
            if int(ps) != pe:
                viol.append(('LOAD-PULSE', '%s: load line names pulse %s, expected %d' % (label, ps, pe)))
            chk('LOAD-R', a, z.real, 'load resistance on pulse %d' % pe)
            chk('LOAD-X', b_, z.imag, 'load reactance on pulse %d' % pe)
    # Laplace-type loads: order and coefficient table (L, C in uH, uF: coefficient of s^d times 10^(6d)), and the impedance the
    # printed table gives at this frequency
    lt = text[text.index('NUMBER OF LOADS'):text.index('SOURCE DATA')] if 'NUMBER OF LOADS' in text else ''
    lblocks = re.findall(r'PULSE NO\., ORDER OF S-PARAMETER FUNCTION:\s*(\d+)\s*,\s*(\d+)((?:\s*NUMERATOR, DENOMINATOR COEFFICIENTS OF S\^\d+ :\s*\S+\s*,\s*\S+)*)', lt)
    expl = [(p.idx + 1, l) for l in m.loads if isinstance(l, mm.Laplace_Load) for p in l.pulses]
    if len(lblocks) != len(expl):
        viol.append(('STRUCT-LOADS', '%s: %d S-parameter blocks for %d loaded pulses' % (label, len(lblocks), len(expl))))
    else:
        for (ps, od, body), (pe, l) in zip(lblocks, expl):
            co = re.findall(r'S\^(\d+) :\s*(\S+)\s*,\s*(\S+)', body)
            if int(ps) != pe or int(od) != l.degree or [int(x[0]) for x in co] != list(range(l.degree + 1)):
                viol.append(('LOAD-LAPLACE-STRUCT', '%s: block for pulse %s order %s with coefficient lines %s; load on pulse %d has order %d' % (label, ps, od, [x[0] for x in co], pe, l.degree)))
                continue
            num = den = 0j
            sv = 2j * math.pi * m.f          # rad / microsecond for f in MHz
            for d, b_, a_ in co:
                d = int(d)
                chk('LOAD-LAPLACE-COEFF', b_, float(l.b[d]) * 10.0 ** (6 * d), 'numerator coefficient of s^%d, load on pulse %d' % (d, pe))
                chk('LOAD-LAPLACE-COEFF', a_, float(l.a[d]) * 10.0 ** (6 * d), 'denominator coefficient of s^%d, load on pulse %d' % (d, pe))
                num += float(b_) * sv ** d
                den += float(a_) * sv ** d
            z = l.impedance(m.f, m.pulses[pe - 1])
            if abs(num / den - z) > 2e-5 * abs(z):
                viol.append(('LOAD-LAPLACE-Z', '%s: the printed coefficient table of the load on pulse %d gives %s at %g MHz, the load acts as %s' % (label, pe, num / den, m.f, z)))
    # --- currents
    cb = report.parse_currents(text)
    rawcur = {}
    for l in text[text.index('CURRENT DATA'):text.index('FAR FIELD')].split('\n'):
        t = l.split()
        if len(t) == 5 and t[0].isdigit():
            rawcur[int(t[0])] = t[1:]
    own = [p.idx + 1 for g in m.geo for p in g.pulses if p.geo[0] is p.geo[1]]
    if sorted(rawcur) != sorted(own):
        viol.append(('STRUCT-CURRENT-ROWS', '%s: current rows for pulses %s, expected %s' % (label, sorted(rawcur), sorted(own))))
    for b, g in zip(cb, m.geo):
        rows = [r[0] for r in b['rows'] if isinstance(r[0], int)]
        if rows != [p.idx + 1 for p in g.pulses if p.geo[0] is p.geo[1]]:
            viol.append(('STRUCT-CURRENT-BLOCK', '%s: block %d prints pulses %s' % (label, b['tag'], rows)))
    for p, t in rawcur.items():
        cur = m.current[p - 1]
        chk('CUR-REAL', t[0], cur.real, 'current %d real' % p)
        chk('CUR-IMAG', t[1], cur.imag, 'current %d imaginary' % p)
        chk('CUR-MAG', t[2], abs(cur), 'current %d magnitude' % p)
        chk('CUR-PHASE', t[3], math.degrees(cmath_phase(cur)), 'current %d phase' % p)
    # --- far field dBi
    rows = report.parse_far_db(text)
    g = np.array(m.far_field.gain)
    if len(rows) != 9:
        viol.append(('STRUCT-PATTERN', '%s: %d pattern rows, expected 9' % (label, len(rows))))
    else:
        rawp = [l.split() for l in text[text.index('PATTERN (DB)'):].split('\n')[1:10]]
        i = 0
        for a in range(3):
            for z in range(3):
                gv = g[z, a] if g.shape[0] == 3 else g[a, z]
                chk('PAT-ZENITH', rawp[i][0], 5. + 40. * z, 'zenith angle')
                chk('PAT-AZIMUTH', rawp[i][1], 10. + 100. * a, 'azimuth angle')
                for col in range(3):
                    chk('PAT-DB', rawp[i][2 + col], gv[col], 'pattern column %d' % col)
                i += 1
    # --- near field
    nb = report.parse_near(text)
    if len(nb) != 4:
        viol.append(('STRUCT-NEAR', '%s: %d near-field blocks, expected 2 E + 2 H' % (label, len(nb))))
    else:
        rawn = re.findall(r'^\s+([XYZ])\s+(\S+)\s+(\S+)\s+(\S+)\s+(\S+)\s*$', text[text.index('NEAR FIELDS'):], flags=re.M)
        fields = [m.e_field[0], m.e_field[1], m.h_field[0], m.h_field[1]]
        if len(rawn) == 12:
            for i, (ax, a, b_, mg, ph) in enumerate(rawn):
                v = fields[i // 3]['XYZ'.index(ax)]
                chk('NEAR-REAL', a, v.real, 'near field real')
                chk('NEAR-IMAG', b_, v.imag, 'near field imaginary')
                chk('NEAR-MAG', mg, abs(v), 'near field magnitude')
                chk('NEAR-PHASE', ph, math.degrees(cmath_phase(v)), 'near field phase')
        # MAXIMUM OR PEAK FIELD: the largest instantaneous magnitude of the (in general elliptically polarised) vector,
        # max_t |Re(F e^jwt)| = sqrt( sum|F_i|^2 / 2 + |sum F_i^2| / 2 )
        rawpk = re.findall(r'MAXIMUM OR PEAK FIELD =\s*(\S+)', text[text.index('NEAR FIELDS'):])
        if len(rawpk) == 4:
            for i, tok in enumerate(rawpk):
                F = np.array(fields[i], complex)
                pk = math.sqrt(float(np.sum(np.abs(F) ** 2)) / 2 + abs(np.sum(F * F)) / 2)
                brute = max(float(np.linalg.norm((F * np.exp(1j * t)).real)) for t in np.linspace(0, math.pi, 721))
                if abs(brute - pk) > 1e-4 * pk:
                    viol.append(('HARNESS', 'peak formula %g vs brute force %g' % (pk, brute)))
                chk('NEAR-PEAK', tok, pk, 'peak of the %s field at point %d' % ('EEHH'[i], i % 2 + 1))
        else:
            viol.append(('STRUCT-NEAR', '%s: %d peak lines' % (label, len(rawpk))))
        pts = [b['point'] for b in nb]
        for i, pt in enumerate(pts):
            e = (0.3 * lam + (i % 2) * 0.1 * lam, 0.2 * lam, 0.4 * lam)
            for a, b_ in zip(pt, e):
                if abs(a - b_) > 5e-6 * abs(b_) + 1e-6:
                    viol.append(('NEAR-POINT', '%s: field point %s expected %s' % (label, pt, e)))
                    break
    # --- V/m table
    for pwr, dist in ((None, 1.0), (250.0, 1000.0)):
        kw = dict(dist=dist)
        if pwr:
            kw['pwr'] = pwr
        m.compute_far_field(zen, azi, **kw)
        t2 = m.far_field_absolute_as_mininec()
        rows = report.parse_far_abs(t2)
        if len(rows) != 9:
            viol.append(('STRUCT-VM', '%s: %d V/m rows' % (label, len(rows))))
            continue
        rawv = [l.split() for l in t2[t2.index('MAG(V/M)'):].split('\n')[1:10]]
        et, ep = np.array(m.far_field.e_theta), np.array(m.far_field.e_phi)
        i = 0
        for a in range(3):
            for z in range(3):
                a_t = et[a, z] if et.shape == (3, 3) else et[z, a]
                vt = et[a, z]
                vp = ep[a, z]
                chk('VM-MAG', rawv[i][2], abs(vt), 'E(theta) magnitude')
                chk('VM-PHASE', rawv[i][3], math.degrees(cmath_phase(vt)) if abs(vt) else 0.0, 'E(theta) phase')
                chk('VM-MAG', rawv[i][4], abs(vp), 'E(phi) magnitude')
                chk('VM-PHASE', rawv[i][5], math.degrees(cmath_phase(vp)) if abs(vp) else 0.0, 'E(phi) phase')
                i += 1
    uniq = {}
    for s, msg in viol:
        uniq.setdefault(s, msg)
    return dict(viol=list(uniq.items())[:10], canon=['%s|%d' % (label, i) for i in range(ev // 10)], nontriv=True, trans=ev, traces=ev, evals=ev,
                dev=0.0, outcome='report')


def cmath_phase(z):
    import cmath
    return cmath.phase(complex(z))
