"""C03 Image theory: ideal ground equals free space plus mirrored antenna."""
import itertools
import numpy as np
from mcx import geom, obs

PID = 'C03'
CHUNK = 1
TOLERANCE = 'currents/impedances 5e-4 (cond<=1e3; 5e-7*cond to 1e5); gain offset 3.0103 +- 0.01 dB'
RULE = ('Every structure with <= D wires on the ground lattice (two points on the plane; vertical extra structures '
        'added) inside the stated domain x EVERY pulse position as single feed (k>=3 junction pulses excluded) x '
        'two 2-source sets with complex voltages; plus a grounded wire at 11 lean angles 0..20 deg (x 2 azimuths x radii x '
        'either end grounded, alone / with a top wire) and a grounded stub of 1..3 segments with a wire on top in 4 listings: the ground model is solved and compared with the free-space model '
        'of wires + mirror images built by the harness (image wires written reversed, grounded wires continued into '
        'their image, ground-end feed = 2V on the junction pulse). State = (structure, feed set); transition = one '
        'ground solve + one free-space solve. Non-trivial: at least one non-vertical wire or a grounded end.')
ASSUMPTIONS = ['mirror construction is the textbook image theory of the statement',
               'wires between 0 and 1 segment above ground are out of domain']
MIR = np.array([1., 1., -1.])


RULE = RULE + ' The gain offset is also compared with a power level requested for the field strengths.'
RULE = RULE + ' One more pass per structure carries 20+30j Ohm on every pulse (twice on the pulses on the plane in the pair model).'


def bounds(tier, seed):
    return dict(max_wires=3 if tier == 'quick' else 4, variant=geom.variant(seed), feeds='every pulse + 2 two-source sets')


def cases(tier, seed):
    D = 3 if tier == 'quick' else 4
    yield from _cases(tier, seed, False)
    yield from _cases(tier, seed, True)
    yield from _lean(tier, seed)
    yield from _stub(tier, seed)
    yield from _loops(tier, seed)
    yield from _perp(tier, seed)
    yield from _tapered(tier, seed)


LEAN = (0., 0.02, 0.1, 0.3, 0.5, 0.7, 0.9, 1.5, 3., 8., 20.)


def _lean(tier, seed):
    """a grounded wire around the vertical/non-vertical classification the matrix fill keys its shortcuts on:
    lean angles from exactly vertical through fractions of a degree to clearly sloping, either end grounded,
    alone and with a sloping top wire"""
    rot, sc, f = geom.variant(seed)
    lam = geom.C_MININEC / f
    for lean in LEAN:
        for az in (0., 37.):
            a, b = np.radians(lean), np.radians(az)
            base = np.array([0.03, -0.02, 0.]) * lam
            top = base + 0.23 * lam * np.array([np.sin(a) * np.cos(b), np.sin(a) * np.sin(b), np.cos(a)])
            tip = top + np.array([0.09, 0.05, 0.04]) * lam
            pts = [list(base), list(top), list(tip)]
            for r in (3e-5, 4e-4) if tier == 'quick' else (3e-5, 2e-4, 4e-4, 1e-3):
                for es in ([(0, 1)], [(1, 0)], [(0, 1), (1, 2)], [(2, 1), (1, 0)]):
                    yield dict(f=f, lam=lam, pts=pts, name='lean%g/%g' % (lean, az), st=[dict(a=x, b=y, n=(6, 3)[i], r=r * lam) for i, (x, y) in enumerate(es)])


def _stub(tier, seed):
    """a short grounded stub of 1..3 segments (its only segment is then carried by the junction pulse, owned by the
    later wire) with a wire on top, listed before / after the stub, vertical and sloping"""
    rot, sc, f = geom.variant(seed)
    lam = geom.C_MININEC / f
    for lean in (0., 8.):
        a = np.radians(lean)
        base = np.array([-0.02, 0.03, 0.]) * lam
        for h in (0.06, 0.075):
            top = base + h * lam * np.array([np.sin(a), 0., np.cos(a)])
            # top wire: 4 segments of 0.04 lambda (ratio to the stub segment <= 2, lowest point >= 1.05 segments up)
            for u in (np.array([0.8, 0.3, 0.2]), np.array([0., 0., 1.]) if lean == 0 else np.array([0.1, 0.7, 0.4])):
                tip = top + 0.16 * lam * u / np.linalg.norm(u)
                pts = [list(base), list(top), list(tip)]
                for ns in (1, 2, 3):
                    for es in ([(0, 1), (1, 2)], [(1, 2), (0, 1)], [(1, 0), (2, 1)], [(2, 1), (1, 0)]):
                        yield dict(f=f, lam=lam, pts=pts, name='stub%g/%g/%d/%g' % (lean, h, ns, u[0]),
                                   st=[dict(a=x, b=y, n=(ns if 0 in (x, y) else 4), r=2e-4 * lam) for x, y in es])


def _loops(tier, seed):
    """half loop standing on the plane with both feet (its second foot is on the plane only numerically: sin(pi) = 1.2e-16)
    against the full loop in free space; quarter arc with a tail against its mirrored pair"""
    rot, sc, f = geom.variant(seed)
    lam = geom.C_MININEC / f
    r = 2e-4 * lam
    for n in (4, 6):
        R = 0.0125 * n * lam            # segments of ~0.04 lambda
        for a1, a2 in ((0., 180.), (180., 0.)):
            half = dict(kind='arc', n=n, radius=R, ang1=a1, ang2=a2, r=r)
            full = dict(kind='arc', n=2 * n, radius=R, ang1=a1, ang2=a1 + (360. if a2 > a1 else -360.), r=r)
            yield dict(f=f, lam=lam, name='halfloop%g-%g-n%d' % (a1, a2, n), gwires=[half], fwires=[full])


def _perp(tier, seed):
    """wires that are EXACTLY perpendicular to each other with a vertical and a horizontal component in a common plane
    (90-degree inverted V, diamond loop, sloper pair): their mirror images are not perpendicular to them"""
    rot, sc, f = geom.variant(seed)
    lam = geom.C_MININEC / f
    L = 0.125 * lam                      # binary fraction of the wavelength keeps the direction cosines exact
    ap = [0., 0., 2.5 * L]
    pts = [[-L, 0., 1.5 * L], ap, [L, 0., 1.5 * L], [0., 0., 0.5 * L], [L, 0., 0.]]
    for name, es in (('invV', [(0, 1), (1, 2)]), ('invV-rev', [(1, 0), (1, 2)]), ('diamond', [(3, 0), (0, 1), (1, 2), (2, 3)]),
                     ('sloper-pair', [(4, 2), (2, 1)])):
        for r in (2e-4, 1e-3):
            yield dict(f=f, lam=lam, pts=pts, name='perp-%s-%g' % (name, r), st=[dict(a=a, b=b, n=5, r=r * lam) for a, b in es])


def _tapered(tier, seed):
    """vertical grounded wires with tapered segmentation (one- and two-sided, with a maximum segment length so that an
    equal-length region follows the short first segments), alone and with a top wire; the mirror image carries the mirrored taper"""
    rot, sc, f = geom.variant(seed)
    lam = geom.C_MININEC / f
    base, top, tip = [0.01 * lam, 0.02 * lam, 0.], [0.01 * lam, 0.02 * lam, 0.24 * lam], [0.13 * lam, 0.08 * lam, 0.26 * lam]
    for tt, tmax in ((1, 0.03), (3, 0.03), (1, None), (2, 0.03), (3, None)):
        taper = [tt, None, None if tmax is None else tmax * lam]
        # a wire joined at the FINE end of a taper is outside the modelling rules (listed C06 finding): top wire only for type 1
        for es in ([(0, 1)], [(0, 1), (1, 2)]) if tt == 1 else ([(0, 1)],):
            for n in (8, 11):
                yield dict(f=f, lam=lam, pts=[base, top, tip], name='taper%d-%s-n%d' % (tt, tmax, n),
                           st=[dict(a=a, b=b, n=(n if i == 0 else 4), r=2e-4 * lam, **(dict(taper=taper) if i == 0 else {})) for i, (a, b) in enumerate(es)])


def _cases(tier, seed, special):
    D = 3 if tier == 'quick' else 4
    P, f, lam = geom.lattice(seed, ground=True, special=special)
    pts = [list(map(float, p)) for p in P]
    # extra points: verticals above the two ground points and a horizontal run
    s = np.linalg.norm(P[1] - P[0])
    extra = [list(P[0] + np.array([0, 0, 1.0 * s])), list(P[1] + np.array([0, 0, 0.8 * s])),
             list(P[0] + np.array([0.9 * s, 0.3 * s, 1.0 * s]))]
    variants = [((3, 2, 3, 2), (3e-5, 2e-4, 3e-5, 2e-4)), (0.045, (2e-4, 3e-5, 2e-4, 3e-5))]
    if tier == 'thorough':
        variants.append(((2, 4, 3, 3), (2e-4, 3e-5, 2e-4, 3e-5)))
        variants.append((0.03, (3e-5, 2e-4, 3e-5, 2e-4)))
    allp = pts + extra
    for nseg, rad in variants:
        if not isinstance(nseg, tuple):
            tgt = nseg * lam
            class _N:
                def __init__(s, es): s.es = es
                def __getitem__(s, i):
                    a, b = s.es[i]
                    return geom.auto_nseg(np.linalg.norm(np.array(allp[a]) - np.array(allp[b])), tgt)
            mk = _N
        else:
            mk = lambda es, nseg=nseg: nseg
        for es in geom.edge_sets(5, D):
            ns = mk(es)
            yield dict(f=f, lam=lam, pts=pts, st=[dict(a=a, b=b, n=ns[i], r=rad[i] * lam) for i, (a, b) in enumerate(es)])
            if len(es) <= 2:
                # reversed orientation too: grounded at end 2
                yield dict(f=f, lam=lam, pts=pts, st=[dict(a=b, b=a, n=ns[i], r=rad[i] * lam) for i, (a, b) in enumerate(es)])
        for es in ([(0, 5)], [(5, 0)], [(0, 5), (5, 7)], [(0, 5), (1, 6), (5, 7)], [(5, 7)], [(0, 5), (7, 5)],
                   [(0, 5), (5, 7), (7, 6)], [(5, 0), (6, 1), (6, 7), (7, 5)][:D]):
            ns = mk(es)
            yield dict(f=f, lam=lam, pts=allp, st=[dict(a=a, b=b, n=ns[i], r=rad[i] * lam) for i, (a, b) in enumerate(es)])


def _mirror_taper(t):
    # the image wire is written reversed: a taper towards end 1 becomes one towards end 2
    return None if t is None else [{1: 2, 2: 1, 3: 3}[t[0]]] + list(t[1:])


def ground_case(c):
    pts = [np.array(p) for p in c['pts']]
    return dict(f=c['f'], env='ideal', wires=[geom.wire(pts[e['a']], pts[e['b']], e['n'], e['r'], taper=e.get('taper')) for e in c['st']])


def pair_case(c):
    pts = [np.array(p) for p in c['pts']]
    ws = [geom.wire(pts[e['a']], pts[e['b']], e['n'], e['r'], taper=e.get('taper')) for e in c['st']]
    ws += [geom.wire(pts[e['b']] * MIR, pts[e['a']] * MIR, e['n'], e['r'], taper=_mirror_taper(e.get('taper'))) for e in c['st']]
    return dict(f=c['f'], env='free', wires=ws)


def evaluate(c):
    gc = ground_case(c) if 'gwires' not in c else dict(f=c['f'], env='ideal', wires=c['gwires'])
    reason = geom.domain(gc, c['lam'], ground=True) if ('gwires' not in c and not any(e.get('taper') for e in c['st'])) else None
    if reason:
        return dict(viol=[], skipped='domain:' + reason, evals=0)
    try:
        g0 = geom.build(gc)
    except ValueError as e:
        if 'Taper' in str(e):
            return dict(viol=[], skipped='taper-not-accepted', evals=0)
        return dict(viol=[('REJECTED', str(e))])
    # feed positions from the ground model's pulse table
    pm = geom.pulse_by_point(g0)
    feeds = []
    for p in g0.pulses:
        if len(geom.pulses_at(pm, p.point)) > 1:
            continue
        feeds.append((list(map(float, p.point)), list(map(float, geom.orient(p))), bool(p.ground.any())))
    sets = [[(f, 1 + 0j)] for f in feeds]
    if len(feeds) >= 2:
        sets.append([(feeds[0], 1 + 0j), (feeds[-1], 0.5 - 0.5j)])
        sets.append([(feeds[len(feeds) // 2], -0.3 + 2j), (feeds[0], 1j)])
    viol, worst, ns = [], 0.0, 0
    nogain = 0
    wnote = None
    zen = (0., 15., 7)
    azi = (0., 30., 12)
    for fs, loaded in [(s_, False) for s_ in sets] + [(sets[0], True)]:
        gsrc, psrc = [], []
        for (at, d, gnd), v in fs:
            gsrc.append(dict(at=at, dir=d, v=[v.real, v.imag]))
            if gnd:
                psrc.append(dict(at=at, dir=d, v=[2 * v.real, 2 * v.imag]))
            else:
                psrc.append(dict(at=at, dir=d, v=[v.real, v.imag]))
                psrc.append(dict(at=list(np.array(at) * MIR), dir=list(-np.array(d) * MIR), v=[v.real, v.imag]))
        g = geom.build(dict(gc, sources=gsrc))
        if loaded:
            # 20+30j Ohm on every pulse (junction pulses in every orientation included); in the pair model the pulse on the
            # plane is the ground pulse plus its image and carries the load twice
            import mininec.mininec as mm
            g.register_load(mm.Impedance_Load(20 + 30j))
        g.compute()
        tol, cond = geom.cond_tol(g)
        if tol is None:
            continue
        fr = geom.build(dict(pair_case(c) if 'fwires' not in c else dict(f=c['f'], env='free', wires=c['fwires']), sources=psrc))
        if loaded:
            fr.register_load(mm.Impedance_Load(20 + 30j))
            l2 = mm.Impedance_Load(20 + 30j)
            zt = geom.ptol(fr)
            for p_ in fr.pulses:
                if abs(p_.point[2]) <= zt:
                    fr.register_load(l2, p_.idx)
        fr.compute()
        ns += 1
        # currents: conductor half currents of the upper half space
        hg = geom.half_currents(g)
        hf = geom.half_currents(fr)
        hf = hf.select((hf.P[:, 2] > hf.tol) | ((np.abs(hf.P[:, 2]) <= hf.tol) & (hf.U[:, 2] > 0)))
        dI = geom.cmp_half_currents(hg, hf)
        if dI is None:
            viol.append(('KEYS', 'half-segment sets of ground and pair model differ'))
            continue
        # impedances
        zg = [s.impedance for s in g.sources]
        zf, i = [], 0
        for (at, d, gnd), v in fs:
            zf.append(fr.sources[i].impedance / 2 if gnd else fr.sources[i].impedance)
            i += 1 if gnd else 2
        dZ = max(abs(a - b) / abs(b) for a, b in zip(zg, zf))
        # gain
        # gain is defined only for a net radiator: two sources can exchange power so that the net input
        # power is a small (even negative) difference; then the dBi normalisation is meaningless
        app = sum(abs(s.power) for s in g.sources)
        if g.power > 0.05 * app:
            _, _, gg = obs.far(g, zen, azi)
            _, _, gf = obs.far(fr, zen, azi)
            tg, tf = gg[..., 2], gf[..., 2]
            msk = tg > tg.max() - 30
            dG = float(np.max(np.abs(tg[msk] - tf[msk] - 3.0103)))
            # the same comparison with a power level requested for the field strengths (dBi does not depend on it)
            _, _, gg = obs.far(g, zen, azi, pwr=100.0)
            _, _, gf = obs.far(fr, zen, azi, pwr=100.0)
            dG = max(dG, float(np.max(np.abs(gg[..., 2][msk] - gf[..., 2][msk] - 3.0103))))
        else:
            dG = 0.0
            nogain += 1
        for k, x, t in (('I', dI, tol), ('Z', dZ, tol), ('G', dG, 0.01)):
            if x / t > worst:
                worst, wnote = x / t, (k, x, cond, [f[0][0] for f in fs])
            if not (x <= t):
                kind = 'gndfeed' if any(f[0][2] for f in fs) else 'feed'
                viol.append(('DEV-%s-%s%s' % (k, kind, '-loaded' if loaded else ''), '%s deviates %.3g > %.3g, feeds %s, cond %.0f%s' % (k, x, t, [f[0][0] for f in fs], cond, ', 20+30j Ohm on every pulse' if loaded else '')))
    und = sorted((e['a'], e['b'], e['n'], round(e['r'], 9)) for e in c.get('st', []))
    ngnd = sum(1 for p in g0.pulses if p.ground.any())
    return dict(viol=viol[:6], canon=['%s%s|%d' % (c.get('name', ''), und, i) for i in range(ns)], nontriv=True, trans=2 * ns, traces=ns,
                evals=2 * ns, dev=worst, outcome='gnd=%d,wires=%d' % (ngnd, len(c.get('st', c.get('gwires', [])))), note=wnote,
                skips={'gain-undefined(net power<5% of sum |P_source|)': nogain} if nogain else None)
