"""C10 Far field is the radiation integral of the currents; dBi and V/m agree."""
import itertools, math
import numpy as np
from mcx import geom, obs
from mcx.ref import ffref
from mcx.props import c06

PID = 'C10'
CHUNK = 1
TOLERANCE = 'pulse-point sum 1e-4 of max|E|; exact half-segment integral 2 % of max (sub-alphabet); dBi vs V/m 1e-3 dB; sqrt(P)/r 1e-12; phi+360 1e-9; zenith 1e-6 dB'
RULE = ('Lattice structures with <= D wires (generic and axis-aligned lattices, free space and ideal ground, both '
        'orientations) and every description of the curved/tapered junction structures, one geometric source each, '
        'solved; far field on the grid theta = 0..180 step 15 (0..90 over ground) x phi = 3..363 step 40 for '
        '(power, distance) in {(own,0),(1 W,1 m),(100 W,1000 m)}. Oracles: reference radiation sum with half-segment '
        'moments at the pulse points (all structures); exact integral over the straight half-segments (structures with '
        '>= 4 segments per wire and segments <= lambda/32, plus fixed known-finding inputs); per-polarisation '
        'gain = |E|^2 r^2/(59.96 P), total = power sum, |E| ~ sqrt(P)/r, rows 360 deg apart identical, zenith gain '
        'independent of azimuth. State = (structure, power/distance variant); transition = one pattern + one reference '
        'evaluation per direction. Non-trivial: pattern maximum above -100 dBi and a junction/ground/curved pulse present.')
ASSUMPTIONS = ['MININEC constants 29.979221 and 59.96 as named in the statement',
               'the 2 % clause is enumerated where the pulse-point approximation was measured to stay below 0.9 % (>=4 segments per wire, L <= lambda/32); outside it one concrete input is kept as known finding']

PD = [(None, 0), (1.0, 1.0), (100.0, 1000.0)]


def bounds(tier, seed):
    return dict(max_wires=3 if tier == 'quick' else 4, variant=geom.variant(seed), power_distance=PD)


def cases(tier, seed):
    D = 3 if tier == 'quick' else 4
    for ground, special in ((False, False), (True, False), (False, True), (True, True)):
        P, f, lam = geom.lattice(seed, ground=ground, special=special)
        pts = [list(map(float, p)) for p in P]
        for es in geom.edge_sets(5, D):
            for fine in (False, True):
                if fine:
                    nseg = [max(4, int(math.ceil(np.linalg.norm(P[a] - P[b]) / (lam / 32.)))) for a, b in es]
                else:
                    nseg = [geom.auto_nseg(np.linalg.norm(P[a] - P[b]), 0.05 * lam) for a, b in es]
                rad = [2e-4 * lam, 3e-5 * lam, 2e-4 * lam, 3e-5 * lam]
                for flip in (0, 1):
                    if flip and not ground:
                        continue
                    st = [dict(a=(b if flip else a), b=(a if flip else b), n=nseg[i], r=rad[i]) for i, (a, b) in enumerate(es)]
                    yield dict(env='ideal' if ground else 'free', f=f, lam=lam, pts=pts, st=st, fine=fine)
    for c in c06.extras(tier, seed):
        for i, ws in enumerate(c['descs']):
            yield dict(env=c['env'], f=c['f'], lam=c['lam'], wires=ws, srcs=c['srcs'], name='%s#%d' % (c['extra'], i), fine=False)
    # arrays of EXACTLY vertical wires away from the z axis (phased / parasitic verticals, grounded monopoles): the only
    # azimuth dependence is the array factor
    rot, sc, f = geom.variant(seed)
    lam = geom.C_MININEC / f
    r = 2e-4 * lam

    def vert(x, y, z0, L, n):
        return geom.wire([x * lam, y * lam, z0 * lam], [x * lam, y * lam, (z0 + L) * lam], n, r)

    def vsrc(x, y, z, v):
        return dict(at=[x * lam, y * lam, z * lam], dir=[0., 0., 1.], v=v)
    arrays = [('1-offaxis', 'free', [vert(0.21, -0.13, 0.1, 0.4, 8)], [vsrc(0.21, -0.13, 0.3, [1., 0.])]),
              ('2-phased', 'free', [vert(0.1, 0.05, 0., 0.4, 8), vert(-0.12, 0.2, 0.05, 0.45, 9)],
               [vsrc(0.1, 0.05, 0.2, [1., 0.]), vsrc(-0.12, 0.2, 0.3, [0., -1.])]),
              ('3-parasitic', 'free', [vert(0., 0., 0., 0.4, 8), vert(0.2, 0., -0.02, 0.45, 9), vert(-0.1, 0.17, 0.03, 0.35, 7)],
               [vsrc(0., 0., 0.2, [1., 0.])]),
              ('2-monopoles', 'ideal', [vert(0.1, 0.05, 0., 0.24, 6), vert(-0.15, 0.2, 0., 0.28, 7)],
               [vsrc(0.1, 0.05, 0., [1., 0.]), vsrc(-0.15, 0.2, 0., [0.3, 0.8])]),
              ('monopole+elevated', 'ideal', [vert(0.1, -0.2, 0., 0.24, 6), vert(-0.1, 0.1, 0.1, 0.4, 8)], [vsrc(0.1, -0.2, 0.04, [1., 0.])])]
    for name, env, ws, srcs in arrays:
        yield dict(env=env, f=f, lam=lam, wires=ws, srcs=srcs, name='vertical-' + name, fine=False)
    # fixed (seed-independent) known-finding inputs for the 2 % clause
    P0, f0, lam0 = geom.lattice(0, ground=False)
    yield dict(env='free', f=f0, lam=lam0, pts=[list(map(float, p)) for p in P0], fixed=True, fine=True, nodomain=True,
               st=[dict(a=a, b=b, n=4, r=r * lam0) for (a, b), r in zip([(0, 1), (0, 4), (1, 2)], (2e-4, 3e-5, 2e-4))])
    # 2-segment sloping grounded wire, segments lambda/18.5
    lam = geom.C_MININEC / 30.0
    L = 2 * lam / 18.5
    d = np.array([math.cos(math.radians(35.)) * 0.8, math.cos(math.radians(35.)) * 0.6, math.sin(math.radians(35.))])
    yield dict(env='ideal', f=30.0, lam=lam, wires=[geom.wire([0., 0., 0.], list(d * L), 2, 1e-4 * lam)],
               srcs=[dict(pulse=0, v=[1.0, 0.0])], name='KF-sloping-grounded-2seg', fine=True, fixed=True)


def evaluate(c):
    from mcx.props.c06 import excitation
    ground = c['env'] != 'free'
    if 'wires' in c:
        case = dict(f=c['f'], env=c['env'], wires=c['wires'], sources=geom.rotate_voltages(c['srcs']))
        name = c['name']
    else:
        pts = [np.array(p) for p in c['pts']]
        case = dict(f=c['f'], env=c['env'], wires=[geom.wire(pts[e['a']], pts[e['b']], e['n'], e['r']) for e in c['st']])
        reason = geom.domain(case, c['lam'], ground=ground)
        if reason:
            return dict(viol=[], skipped='domain:' + reason, evals=0)
        srcs, loads = excitation(c)
        if srcs is None:
            return dict(viol=[], skipped='no-feed-position', evals=0)
        case['sources'] = geom.rotate_voltages(srcs)
        name = '%s|%s|fine=%s' % (c['env'], [(e['a'], e['b'], e['n']) for e in c['st']], c['fine'])
    try:
        m = geom.build(case)
    except ValueError as e:
        return dict(viol=[], skipped='rejected:' + str(e)[:30], evals=0)
    m.compute()
    Pin = geom.input_power(m)
    if not (Pin > 0):
        return dict(viol=[], skipped='non-positive input power', evals=1)
    zen = (0., 15., 7) if ground else (0., 15., 13)
    azi = (3., 40., 10)
    viol, canon, worst, wn = [], [], 0.0, None

    def chk(sig, x, tol, msg):
        nonlocal worst, wn
        if x / tol > worst:
            worst, wn = x / tol, sig
        if not (x <= tol):
            viol.append((sig, '%s: %s (%.3g > %.3g)' % (name, msg, x, tol)))
    for a_, b_ in geom.pulse_geometry_violations(m)[:3]:       # the reference sums over the model's pulse table: check that table
        viol.append((a_, '%s: %s' % (name, b_)))
    ths = [math.radians(zen[0] + i * zen[1]) for i in range(zen[2])]
    phs = [math.radians(azi[0] + j * azi[1]) for j in range(azi[2])]
    ref_m = np.array([[ffref.field(m, th, ph, True) for th in ths] for ph in phs])        # (nphi, ntheta, 2)
    do_exact = c.get('fine')
    if do_exact:
        ref_x = np.array([[ffref.field(m, th, ph, False) for th in ths] for ph in phs])
    base = None
    ntr = 0
    for pwr, dist in PD:
        et, ep, gain = obs.far(m, zen, azi, pwr=pwr, dist=dist)
        ntr += 1
        et, ep = np.array(et), np.array(ep)
        if et.shape != ref_m.shape[:2]:
            et, ep = et.T, ep.T
        g = np.array(gain)
        if g.shape[:2] != et.shape:
            g = np.transpose(g, (1, 0, 2))
        P = Pin if pwr is None else pwr
        r = dist if dist else 1.0
        scale = math.sqrt(P / Pin) / r
        mx = max(np.abs(ref_m).max() * scale, 1e-300)
        # 1. radiation sum with moments at pulse points
        dv = max(np.abs(et - ref_m[..., 0] * scale).max(), np.abs(ep - ref_m[..., 1] * scale).max()) / mx
        chk('FF-SUM-' + c['env'], dv, 1e-4, 'field differs from the pulse-point radiation sum (P=%s r=%s)' % (pwr, dist))
        # 2. exact half-segment integral
        if do_exact and pwr is None:
            dx = max(np.abs(et - ref_x[..., 0] * scale).max(), np.abs(ep - ref_x[..., 1] * scale).max()) / mx
            chk('FF-EXACT-' + c['env'], dx, 0.02, 'field differs from the exact half-segment integral')
        # 3. dBi vs V/m
        for col, E in ((0, et), (1, ep)):
            with np.errstate(divide='ignore'):
                gd = 10 * np.log10(np.abs(E) ** 2 * r * r / (59.96 * P))
            msk = g[..., col] > -100
            if msk.any():
                chk('DBI-VM', float(np.abs(gd - g[..., col])[msk].max()), 1e-3, 'dBi column %d vs |E|^2 r^2/(59.96 P) (P=%s r=%s)' % (col, pwr, dist))
        tot = 10 * np.log10(10 ** (g[..., 0] / 10) + 10 ** (g[..., 1] / 10))
        msk = (g[..., 2] > -100) & (g[..., 0] > -150) & (g[..., 1] > -150)
        if msk.any():
            chk('DBI-TOTAL', float(np.abs(tot - g[..., 2])[msk].max()), 1e-3, 'total is not the power sum of vertical and horizontal')
        # 4. scaling with sqrt(P)/r
        if base is None:
            base = (et.copy(), ep.copy(), g.copy())
        else:
            dv = max(np.abs(et - base[0] * scale).max(), np.abs(ep - base[1] * scale).max()) / (np.abs(base[0]).max() * scale + 1e-300)
            chk('SCALING', dv, 1e-12, 'V/m values do not scale with sqrt(P)/r (P=%s r=%s)' % (pwr, dist))
            chk('DBI-INVARIANT', float(np.abs(g - base[2])[base[2] > -200].max()) if (base[2] > -200).any() else 0.0, 1e-9, 'dBi changes with power/distance')
        # 5. phi and phi+360 (first and last azimuth), zenith
        dv = max(np.abs(et[0] - et[-1]).max(), np.abs(ep[0] - ep[-1]).max()) / (np.abs(et).max() + np.abs(ep).max() + 1e-300)
        chk('PHI360', dv, 1e-9, 'rows 360 degrees apart differ')
        z = g[:, 0, 2]
        if z.max() > -100:
            chk('ZENITH', float(z.max() - z.min()), 1e-6, 'total gain at the zenith depends on azimuth')
        canon.append('%s|%s|%s' % (name, pwr, dist))
    # 6. a second table on the same object that differs from the first request in the azimuth start only
    # (and then in the zenith start only): three of its rows against the radiation sum
    # ... and a cut through the zenith (negative zenith angles) / a full turn in zenith (free space)
    zcut = (-75., 15., 11) if ground else (-90., 30., 12)
    for zen2, azi2, what in ((zen, (azi[0] + 90., azi[1], azi[2]), 'azimuth'), ((zen[0] + 7., zen[1], zen[2] - 1), azi, 'zenith'), (zcut, azi, 'zenith-cut'),
                             (zen, (3., 36., 10), 'azimuth-circle'), (zen, (-170., -30., 12), 'azimuth-circle-back')):     # |step| x count = 360
        et, ep, gain = obs.far(m, zen2, azi2)
        ntr += 1
        et, ep = np.array(et), np.array(ep)
        if et.shape != (azi2[2], zen2[2]):
            et, ep = et.T, ep.T
        dv = 0.0
        for j in (0, 4, 9):
            for i in range(zen2[2]):
                rf = ffref.field(m, math.radians(zen2[0] + i * zen2[1]), math.radians(azi2[0] + j * azi2[1]), True)
                dv = max(dv, abs(et[j, i] - rf[0]), abs(ep[j, i] - rf[1]))
        chk('FF-SUM-2nd-' + what, dv / max(np.abs(ref_m).max(), 1e-300), 1e-4, 'second request (%s start changed) differs from the pulse-point radiation sum' % what)
        canon.append('%s|2nd-%s' % (name, what))
    # 7. time measurement switched on (-T): the tables of a power / distance request are the same as without it
    import contextlib, io
    et0, ep0, g0_ = obs.far(m, zen, azi, pwr=100., dist=1000.)
    m.do_timing = True
    try:
        with contextlib.redirect_stderr(io.StringIO()):
            et1, ep1, g1_ = obs.far(m, zen, azi, pwr=100., dist=1000.)
    finally:
        m.do_timing = False
    ntr += 2
    dv = max(np.abs(np.array(et1) - np.array(et0)).max(), np.abs(np.array(ep1) - np.array(ep0)).max()) / (np.abs(np.array(et0)).max() + np.abs(np.array(ep0)).max() + 1e-300)
    chk('TIMING-VM', dv, 1e-12, 'V/m table for 100 W at 1000 m changes when time measurement is switched on')
    chk('TIMING-DBI', float(np.abs(np.array(g1_) - np.array(g0_))[np.array(g0_) > -200].max()) if (np.array(g0_) > -200).any() else 0.0, 1e-9, 'dBi table changes when time measurement is switched on')
    canon.append('%s|timing' % name)
    special = ground or 'wires' in c or geom.junction_degree(case) >= 2
    return dict(viol=viol[:8], canon=canon, nontriv=bool(special), trans=ntr + len(ths) * len(phs), traces=len(ths) * len(phs) * (2 if do_exact else 1),
                evals=ntr, dev=worst, outcome='%s,exact=%s' % (c['env'], bool(do_exact)), note=dict(worst=wn, name=name))
