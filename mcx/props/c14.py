"""C14 Results depend only on the inputs: no history, no run-to-run variation."""
import itertools, os, sys, subprocess, tempfile, hashlib, math
import numpy as np
from mcx import geom, cli
from mcx.ref import report

PID = 'C14'
CHUNK = 1
CASE_TIMEOUT = 14400     # CPU seconds; one case = the whole reachability search of one model
TOLERANCE = 'every result after any history equals the result of a fresh object that only did f<-current; compute; that request (1e-12 relative; texts equal); separate processes byte-identical'
RULE = ('(a) explicit-state reachability on 13 models (junction end2-end1, end2-end2, end1-end1; one per load kind: none, lumped, RLC, trap, Laplace, skin effect by '
        'conductivity and by resistivity, insulation, both distributed loads on a 2-wire junction, tapered wire over ground, '
        'helix): operations {f<-a, f<-b, f<-c, compute, far field x4, near field x3, report, option list, attach the load to one more pulse, change the source voltage} '
        '(far field 3/4 and near field 3 differ from 1 in exactly one start value), each enabled '
        'when the API contract allows it; breadth-first over histories, each history replayed on a FRESH real object, '
        'states deduplicated by a digest of the complete mutable state (recursive walk of all objects, arrays by content), '
        'to the fixed point or depth D. Invariant in every state: the result of the last operation equals that of a fresh '
        'object. (b) frequency sweeps of 1..4 steps through main() against single-frequency runs. (c) all k! iteration '
        'orders of the hash-ordered sets of geometry objects (Geobj.__hash__ patched to each permutation) while writing '
        'option list and report. (d) 12 command lines x 3 fresh processes with different PYTHONHASHSEED: stdout, option '
        'file and BASIC input byte-identical. State = digest of the mutable state; transition = one operation.')
ASSUMPTIONS = ['fields are requested only after a compute at the current frequency (API contract)',
               'the state digest may be finer than necessary (costs states, never soundness)']

FREQS = [14.0, 21.3, 28.5]
# thorough depth: 6 completes in about 10 minutes on 16 idle cores (15 operations, 13 models); MCX_C14_DEPTH=7 or 8 goes deeper
# (about x2.2 states per level)
DEPTH_T = int(os.environ.get('MCX_C14_DEPTH', '6'))
OPS = ['Fa', 'Fb', 'Fc', 'C', 'FF1', 'FF2', 'FF3', 'FF4', 'NF1', 'NF2', 'NF3', 'REP', 'CMD', 'LD', 'V']


def bounds(tier, seed):
    return dict(depth=4 if tier == 'quick' else DEPTH_T, ops=OPS, freqs=FREQS)


# ------------------------------------------------------------------ models
def model(name):
    import mininec.mininec as mm
    lam = geom.C_MININEC / 21.3
    A, B, C_ = [0., 0., 0.1 * lam], [0.05 * lam, 0.08 * lam, 0.2 * lam], [0.2 * lam, 0.05 * lam, 0.26 * lam]
    media = None
    if name in ('taper-ground', 'trap'):
        media = [mm.Medium(0, 0)]
        A = [0., 0., 0.]
    w1 = mm.Wire(4, *A, *B, 1e-3)
    w2 = mm.Wire(5, *B, *C_, 2e-3)
    if name == 'rev-e2e2':
        w2 = mm.Wire(5, *C_, *B, 2e-3)          # junction end 2 - end 2
    if name == 'rev-e1e1':
        w1 = mm.Wire(4, *B, *A, 1e-3)           # both legs defined from the junction outwards
    objs = [w1, w2]
    if name == 'taper-ground':
        w2.segtype = 1
    if name == 'helix':
        objs = [mm.Helix(10, 0.1 * lam, 0.06 * lam, 1e-3, 0.03 * lam, 0.03 * lam)]
    m = mm.Mininec(FREQS[0], objs, media=media)
    m.register_source(mm.Excitation(1 + 0.5j), 2)
    if name == 'lumped':
        m.register_load(mm.Impedance_Load(30 + 40j), 3)
    elif name == 'rlc':
        m.register_load(mm.Series_RLC_Load(5., 2e-6, 30e-12), 3)
    elif name == 'trap':
        m.register_load(mm.Trap_Load(2., 1e-6, 50e-12), 0)
    elif name == 'laplace':
        m.register_load(mm.Laplace_Load(a=[1., 2e-9], b=[10., 3e-6]), 4)
    elif name == 'skin-cond':
        for w in m.geo:
            m.register_load(mm.Skin_Effect_Load(w, conductivity=1e5, all_wires=True), None, w.tag)
    elif name == 'skin-res':
        m.register_load(mm.Skin_Effect_Load(w1, resistivity=1e-4), None, w1.tag)
    elif name == 'insulation':
        m.register_load(mm.Insulation_Load(w2, 4e-3, 2.3), None, w2.tag)
    elif name == 'both-dist':
        for w in m.geo:
            m.register_load(mm.Skin_Effect_Load(w, conductivity=3e5, all_wires=True), None, w.tag)
            m.register_load(mm.Insulation_Load(w, w.r_orig * 2, 3.0, all_wires=True), None, w.tag)
    m.fix_distributed_loads()
    return m


MODELS = ['plain', 'rev-e2e2', 'rev-e1e1', 'lumped', 'rlc', 'trap', 'laplace', 'skin-cond', 'skin-res', 'insulation', 'both-dist', 'taper-ground', 'helix']


def apply(m, op, st):
    """apply one operation; st = harness bookkeeping (computed_f, ff_done, nf_done); returns the observable"""
    import mininec.mininec as mm
    lam = geom.C_MININEC / 21.3
    if op in ('Fa', 'Fb', 'Fc'):
        m.f = FREQS['abc'.index(op[1])]
        st['ff'] = st['nf'] = False
        return ('f', m.f)
    if op == 'LD':
        # configuration change between solves: the model's lumped load object (or a new one) gets one more pulse
        lump = [l for l in m.loads if not isinstance(l, mm.Distributed_Load)]
        m.register_load(lump[0] if lump else mm.Impedance_Load(10 + 5j), 1)
        st['cfg'] = st.get('cfg', ()) + ('LD',)
        st['cf'] = None
        st['ff'] = st['nf'] = False
        return ('cfg', 'LD')
    if op == 'V':
        # configuration change: another (complex) source voltage
        m.sources[0].voltage = 0.3 - 2j
        st['cfg'] = st.get('cfg', ()) + ('V',)
        st['cf'] = None
        st['ff'] = st['nf'] = False
        return ('cfg', 'V')
    if op == 'C':
        m.compute()
        st['cf'] = m.f
        st['ff'] = st['nf'] = False
        return ('C', m.current.copy(), np.array([s.impedance for s in m.sources]), m.power)
    if op == 'FF1':
        m.compute_far_field(mm.Angle(10., 35., 3), mm.Angle(15., 100., 3))
        st['ff'] = True
        return ('FF', np.array(m.far_field.gain), np.array(m.far_field.e_theta), np.array(m.far_field.e_phi))
    if op == 'FF2':
        m.compute_far_field(mm.Angle(0., 45., 3), mm.Angle(0., 90., 4), pwr=100., dist=1000.)
        st['ff'] = True
        return ('FF', np.array(m.far_field.gain), np.array(m.far_field.e_theta), np.array(m.far_field.e_phi))
    if op in ('FF3', 'FF4'):
        # FF1 with exactly one parameter changed: the azimuth start (FF3) / the zenith start (FF4)
        if op == 'FF3':
            m.compute_far_field(mm.Angle(10., 35., 3), mm.Angle(115., 100., 3))
        else:
            m.compute_far_field(mm.Angle(45., 35., 3), mm.Angle(15., 100., 3))
        st['ff'] = True
        return ('FF', np.array(m.far_field.gain), np.array(m.far_field.e_theta), np.array(m.far_field.e_phi))
    if op == 'NF3':
        # NF1 with only the start point changed
        m.compute_near_field([0.35 * lam, -0.2 * lam, 0.3 * lam], [0.1 * lam, 0.1 * lam, 0.1 * lam], [2, 1, 2])
        st['nf'] = True
        return ('NF', np.array(m.e_field), np.array(m.h_field))
    if op == 'NF1':
        m.compute_near_field([0.3 * lam, 0.2 * lam, 0.4 * lam], [0.1 * lam, 0.1 * lam, 0.1 * lam], [2, 1, 2])
        st['nf'] = True
        return ('NF', np.array(m.e_field), np.array(m.h_field))
    if op == 'NF2':
        m.compute_near_field([-0.3 * lam, 0.25 * lam, 0.5 * lam], [1., 1., 1.], [1, 1, 1], pwr=50.)
        st['nf'] = True
        return ('NF', np.array(m.e_field), np.array(m.h_field))
    if op == 'REP':
        opts = set(['none'])
        if st.get('ff'):
            opts.add('far-field')
        if st.get('nf'):
            opts.add('near-field')
        return ('TXT', m.as_mininec(opts))
    if op == 'CMD':
        return ('TXT', m.as_cmdline())


def enabled(op, st, f):
    if op in ('Fa', 'Fb', 'Fc'):
        return FREQS['abc'.index(op[1])] != f
    if op == 'C':
        return True
    if op in ('LD', 'V'):
        return op not in st.get('cfg', ())
    if op in ('FF1', 'FF2', 'FF3', 'FF4', 'NF1', 'NF2', 'NF3', 'REP'):
        return st.get('cf') == f
    return True


def digest_state(m):
    h = hashlib.sha1()
    seen = {}

    def walk(o, depth=0):
        if o is None or isinstance(o, (bool, int, str)):
            h.update(repr(o).encode())
        elif isinstance(o, float):
            h.update(repr(float(o)).encode())
        elif isinstance(o, complex):
            h.update(repr(complex(o)).encode())
        elif isinstance(o, np.ndarray):
            h.update(str(o.dtype).encode() + str(o.shape).encode())
            if o.dtype == object:
                for x in o.flat:
                    walk(x, depth + 1)
            else:
                h.update(np.ascontiguousarray(o).tobytes())
        elif isinstance(o, np.generic):
            h.update(repr(o.item()).encode())
        elif isinstance(o, (list, tuple)):
            h.update(b'[%d' % len(o))
            for x in o:
                walk(x, depth + 1)
        elif isinstance(o, dict):
            h.update(b'{%d' % len(o))
            for k in sorted(o, key=lambda k: repr(k) if not hasattr(k, 'n') else 'geo%s' % k.n):
                walk(k if not hasattr(k, '__dict__') else ('obj', getattr(k, 'n', None)), depth + 1)
                walk(o[k], depth + 1)
        elif isinstance(o, (set, frozenset)):
            h.update(b'set%d' % len(o))
            for x in sorted(o, key=lambda x: repr(x) if not hasattr(x, '__dict__') else 'geo%s' % getattr(x, 'n', None)):
                walk(x if not hasattr(x, '__dict__') else ('obj', getattr(x, 'n', None)), depth + 1)
        elif hasattr(o, '__dict__'):
            if id(o) in seen:
                h.update(b'ref%d' % seen[id(o)])
                return
            seen[id(o)] = len(seen)
            h.update(type(o).__name__.encode())
            for k in sorted(o.__dict__):
                h.update(k.encode())
                walk(o.__dict__[k], depth + 1)
        elif callable(o):
            h.update(b'callable')
        else:
            h.update(repr(o).encode())
    walk(m)
    return h.hexdigest()


def same(a, b):
    if a[0] != b[0]:
        return False, 'kind'
    if a[0] == 'TXT':
        return a[1] == b[1], 'text differs'
    if a[0] == 'f':
        return a[1] == b[1], 'f'
    w = 0.0
    for x, y in zip(a[1:], b[1:]):
        x, y = np.asarray(x), np.asarray(y)
        if x.shape != y.shape:
            return False, 'shape'
        sc = np.abs(y).max() if y.size else 0.0
        if np.isrealobj(y) and y.size and (y < -900).any():
            msk = y > -900
            if not ((x > -900) == msk).all():
                return False, '-999 pattern'
            d = np.abs(x - y)[msk].max() if msk.any() else 0.0
            sc = max(np.abs(y[msk]).max(), 1.0) if msk.any() else 1.0
        else:
            d = np.abs(x - y).max() if y.size else 0.0
        w = max(w, d / (sc if sc > 0 else 1.0))
    return w <= 1e-12, 'relative deviation %.3g' % w


def cases(tier, seed):
    for name in MODELS:
        yield dict(kind='reach', model=name, depth=4 if tier == 'quick' else DEPTH_T)
    for base in SWEEP_BASES:
        for steps in (1, 2, 3, 4):
            yield dict(kind='sweep', base=base, steps=steps)
    for i in range(len(ORDER_CMDS)):
        yield dict(kind='fieldorder', cmd=i)
    for i in range(len(HASH_CMDS)):
        yield dict(kind='hashorder', cmd=i)
    for i in range(len(PROC_CMDS)):
        yield dict(kind='procs', cmd=i)


W2 = ['-w', '4,0,0,1,0.5,0.8,2,0.001', '-w', '5,0.5,0.8,2,2,0.5,2.6,0.002']
SWEEP_BASES = [
    W2 + ['--excitation-pulse=2'],
    W2 + ['--excitation-pulse=2', '--skin-effect-conductivity=1e5'],
    W2 + ['--excitation-pulse=2', '--insulation-load=0.004,2.3,2', '--skin-effect-resistivity=1e-4,1'],
    W2 + ['--excitation-pulse=2', '--rlc-load=5,2e-6,30e-12', '--attach-load=1,4', '--trap-load=2,1e-6,50e-12', '--attach-load=2,6', '--medium=13,0.005,0'],
    ['-w', '4,0,0,0,0.5,0.8,2,0.001', '-w', '5,0.5,0.8,2,2,0.5,2.6,0.002', '--medium=0,0,0', '--excitation-pulse=1', '--laplace-load-a=1,2e-9', '--laplace-load-b=10,3e-6', '--attach-load=1,3'],
    # both field kinds in one run, a power level for only one of them / for both / distance
    W2 + ['--excitation-pulse=2', '--near-field=1,2,3,0.5,0.5,0.5,2,1,2', '--option=near-field', '--option=far-field', '--option=far-field-absolute', '--ff-power=100'],
    W2 + ['--excitation-pulse=2', '--near-field=1,2,3,0.5,0.5,0.5,2,1,2', '--option=near-field', '--option=far-field-absolute', '--nf-power=50', '--ff-distance=1000'],
    W2 + ['--excitation-pulse=2', '--near-field=1,2,3,0.5,0.5,0.5,2,1,2', '--option=near-field', '--option=far-field', '--nf-power=50', '--ff-power=100', '--rlc-load=5,2e-6,30e-12', '--attach-load=1,4'],
]
# requests whose far-field part must not depend on a near field being requested too (and vice versa)
ORDER_CMDS = [
    (W2 + ['--excitation-pulse=2'], ['--option=far-field', '--option=far-field-absolute'], ['--near-field=1,2,3,0.5,0.5,0.5,2,1,2', '--option=near-field', '--nf-power=50']),
    (W2 + ['--excitation-pulse=2'], ['--option=far-field-absolute', '--ff-power=100', '--ff-distance=500'], ['--near-field=1,2,3,0.5,0.5,0.5,2,1,2', '--option=near-field']),
    (W2 + ['--excitation-pulse=2', '--medium=0,0,0'], ['--option=far-field'], ['--near-field=1,2,3,0.5,0.5,0.5,1,1,2', '--option=near-field', '--nf-power=7']),
]
W3 = ['-w', '3,0,0,1,0.5,0.8,2,0.001', '-w', '3,0.5,0.8,2,2,0.5,2.6,0.002', '-w', '2,0.5,0.8,2,0.3,1.5,1.2,0.001', '-w', '3,5,5,5,5,5,6,0.001']
HASH_CMDS = [
    W3 + ['--excitation-pulse=2', '--load=10+5j', '--attach-load=1,all,1', '--attach-load=1,all,3', '--attach-load=1,all,4'],
    W3 + ['--excitation-pulse=2', '--load=10+5j', '--attach-load=1,all,2', '--attach-load=1,all,4', '--attach-load=1,1', '--rlc-load=1,1e-6,', '--attach-load=2,all,3', '--attach-load=2,all,1'],
    W3 + ['--excitation-pulse=2', '--skin-effect-conductivity=1e6', '--insulation-load=0.004,2.3'],
    W3 + ['--excitation-pulse=2', '--trap-load=2,1e-6,50e-12', '--attach-load=1,all,4', '--attach-load=1,all,2', '--attach-load=1,all,3'],
]
PROC_CMDS = SWEEP_BASES + HASH_CMDS + [
    ['-a', '5,1,0,120,0.002', '--helix=8,1,0.5,0.002,0.3,0.3', '-w', '3,1,0,0,2,0.5,0.3,0.002', '--geo-rotate=1,10,20,30,1', '--geo-translate=2,0,0,3,2',
     '--excitation-pulse=2,1', '--near-field=1,1,1,.5,.5,.5,2,1,2', '--option=near-field', '--option=far-field', '--option=far-field-absolute', '--ff-distance=100'],
    ['-w', '6,0,0,0,0,0,5,0.002', '--medium=13,0.005,0,5', '--medium=3,0.001,-1', '--boundary=circular', '--radial-count=8', '--radial-radius=0.001', '--excitation-pulse=1'],
    W3 + ['--excitation-pulse=2', '--frequency-increment=1', '--frequency-steps=3', '--skin-effect-conductivity=1e5'],
    # time measurement on: its lines belong on standard error, the report and the files stay byte-identical
    W2 + ['-T', '--excitation-pulse=2', '--near-field=1,2,3,0.5,0.5,0.5,2,1,2', '--option=near-field', '--option=far-field', '--frequency-increment=1', '--frequency-steps=2'],
]


def freq_blocks(text):
    """split a sweep report into per-frequency parts (from the FREQUENCY line on)"""
    parts = text.split('FREQUENCY (MHZ):')
    return ['FREQUENCY (MHZ):' + p for p in parts[1:]]


def evaluate(c):
    import mininec.mininec as mm
    viol = []
    k = c['kind']
    if k == 'reach':
        name, depth = c['model'], c['depth']
        fresh_cache = {}

        def fresh(f, op, st_flags, cfg=()):
            key = (f, op, st_flags, cfg)
            if key not in fresh_cache:
                m = model(name)
                st = {}
                for o_ in cfg:
                    apply(m, o_, st)
                if m.f != f:
                    m.f = f
                first = apply(m, 'C', st)
                if op in ('REP',):
                    # report after the same field requests as recorded in the flags
                    if st_flags[0]:
                        apply(m, st_flags[0], st)
                    if st_flags[1]:
                        apply(m, st_flags[1], st)
                fresh_cache[key] = apply(m, op, st) if op != 'C' else first      # the reference solve is the FIRST one of a new object
            return fresh_cache[key]
        seen = set()
        # breadth-first from the initial state AND from a state in which everything has been computed once
        frontier = [[]]
        second_root = ['C', 'FF1', 'NF1']
        ntrans = 0
        maxd = 0
        fixed_point = False
        while frontier:
            nxt = []
            for hist in frontier:
                for op in OPS:
                    # replay on a fresh real object
                    m = model(name)
                    st = {}
                    lastff = lastnf = None
                    ok = True
                    for o in hist:
                        apply(m, o, st)
                        if o.startswith('FF'):
                            lastff = o
                        if o.startswith('NF'):
                            lastnf = o
                        if o in ('C', 'LD', 'V') or o.startswith('F') and not o.startswith('FF'):
                            lastff = lastnf = None
                    if not enabled(op, st, m.f):
                        continue
                    res = apply(m, op, st)
                    if op.startswith('FF'):
                        lastff = op
                    if op.startswith('NF'):
                        lastnf = op
                    if op in ('C', 'LD', 'V') or (op.startswith('F') and not op.startswith('FF')):
                        lastff = lastnf = None
                    ntrans += 1
                    if op == 'CMD':
                        ref = fresh(FREQS[0], 'CMD', (None, None)) if False else None
                        # option list depends on f: compare with a fresh object at the same f (no compute needed)
                        mf = model(name)
                        for o_ in st.get('cfg', ()):
                            apply(mf, o_, {})
                        if mf.f != m.f:
                            mf.f = m.f
                        ref = ('TXT', mf.as_cmdline())
                    elif op in ('Fa', 'Fb', 'Fc', 'LD', 'V'):
                        ref = res
                    else:
                        ref = fresh(m.f, op, (lastff if op == 'REP' else None, lastnf if op == 'REP' else None), st.get('cfg', ()))
                    okk, why = (True, '') if op in ('LD', 'V') else same(res, ref)
                    if not okk:
                        viol.append(('HISTORY-%s-%s' % (op, name), 'model %s: after history %s the result of %s differs from a fresh object at f=%g (%s)' % (name, hist, op, m.f, why)))
                    d = digest_state(m)
                    if d not in seen:
                        seen.add(d)
                        nxt.append(hist + [op])
            maxd += 1
            if maxd == 1:
                nxt.append(second_root)       # joins the frontier at depth 1: explored depth-1 further steps from it
            if not nxt:
                fixed_point = True
                break
            if maxd >= depth:
                break
            frontier = nxt
        uniq = {}
        for s, msg in viol:
            uniq.setdefault(s, msg)
        return dict(viol=list(uniq.items())[:8], canon=['%s|%s' % (name, d) for d in seen], nontriv=True, trans=ntrans, traces=ntrans, evals=ntrans,
                    dev=0.0, outcome='reach:%s' % ('fixed-point' if fixed_point else 'depth%d' % maxd))
    if k == 'sweep':
        base, n = c['base'], c['steps']
        f0, inc = 14.0, 3.65
        kind, r, out, err = cli.run_main(['-f', repr(f0)] + base + ['--frequency-increment=%r' % inc, '--frequency-steps=%d' % n, '--theta=10,35,3', '--phi=15,100,3'])
        if kind != 'ret' or r is not None:
            return dict(viol=[('SWEEP-FAILED', '%s %s %s' % (kind, r, (out + err)[-200:]))])
        blocks = freq_blocks(out) if n > 1 else None
        for i in range(n):
            kind, r, o1, e1 = cli.run_main(['-f', repr(f0 + i * inc)] + base + ['--theta=10,35,3', '--phi=15,100,3'])
            if n == 1:
                if o1 != out:
                    viol.append(('SWEEP-1', 'a sweep of one step differs from the plain run'))
                continue
            single = freq_blocks(o1)[0]
            # the single run prints geometry/sources/loads between the frequency and the source data: compare the
            # frequency-dependent blocks
            def dep(t):
                i1 = t.index('*' * 20 + '    SOURCE DATA')
                head = t[:t.index('\n', t.index('WAVE LENGTH'))]
                return head + '\n' + t[i1:]
            a, b = dep(blocks[i]).rstrip(), dep(single).rstrip()
            if a != b:
                la, lb = a.split('\n'), b.split('\n')
                diff = [(x, y) for x, y in zip(la, lb) if x != y][:2]
                viol.append(('SWEEP-STEP', 'step %d of a %d-step sweep (f=%g) differs from the fresh single-frequency run: %s' % (i, n, f0 + i * inc, diff)))
        return dict(viol=viol[:4], canon='sweep|%s|%d' % (SWEEP_BASES.index(base), n), nontriv=n > 1, trans=n + 1, traces=n, evals=n + 1, dev=0.0, outcome='sweep')
    if k == 'fieldorder':
        base, ffo, nfo = ORDER_CMDS[c['cmd']]
        ang = ['--theta=10,35,3', '--phi=15,100,3']

        def section(t, start, stops):
            if start not in t:
                return None
            u = t[t.index(start):]
            cut = [u.index(x, 1) for x in stops if x in u[1:]]
            return u[:min(cut)] if cut else u
        outs = {}
        for name, extra in (('far', ffo), ('near', nfo), ('both', ffo + nfo), ('both-rev', nfo + ffo)):
            kind, r, o1, e1 = cli.run_main(['-f', '21.3'] + base + ang + extra)
            if kind != 'ret' or r is not None:
                return dict(viol=[('ORDER-FAILED', '%s: %s %s %s' % (name, kind, r, (o1 + e1)[-200:]))])
            outs[name] = o1
        HF, HN = '*' * 20 + '     FAR FIELD      ', '*' * 20 + '    NEAR FIELDS     '

        def far_part(t):
            i = t.find(HF)
            if i < 0:
                return None
            j = t.find(HN, i)
            return t[i:j] if j > i else t[i:]

        def near_part(t):
            j = t.find(HN)
            if j < 0:
                return None
            i = t.find(HF, j)
            return t[j:i] if i > j else t[j:]
        for nm in ('both', 'both-rev'):
            fa, fb = far_part(outs['far']), far_part(outs[nm])
            if fa is None or fb is None or fa.strip() != fb.strip():
                d = [(x, y) for x, y in zip((fa or '').split('\n'), (fb or '').split('\n')) if x != y][:2]
                viol.append(('ORDER-FAR', 'far-field part of the report changes when a near field is requested in the same run (%s): %s' % (nm, d)))
            na, nb = near_part(outs['near']), near_part(outs[nm])
            if na is None or nb is None or na.strip() != nb.strip():
                d = [(x, y) for x, y in zip((na or '').split('\n'), (nb or '').split('\n')) if x != y][:2]
                viol.append(('ORDER-NEAR', 'near-field part of the report changes when a far field is requested in the same run (%s): %s' % (nm, d)))
        return dict(viol=viol[:4], canon='fieldorder|%d' % c['cmd'], nontriv=True, trans=4, traces=4, evals=4, dev=0.0, outcome='fieldorder')
    if k == 'hashorder':
        argv = ['-f', '21.3'] + HASH_CMDS[c['cmd']]
        texts = {}
        orig = mm.Geobj.__hash__
        nperm = 0
        try:
            for perm in itertools.permutations(range(4)):
                mm.Geobj.__hash__ = lambda self, perm=perm: perm[self.n] if getattr(self, 'n', None) is not None and self.n < 4 else id(self) >> 4
                m, diag = cli.build_main(argv)
                if m is None:
                    return dict(viol=[('HASH-REJECTED', diag)])
                m.compute()
                t = (m.as_cmdline(), m.as_mininec(set(['none'])), m.as_cmdline(load_by_geo=True))
                texts.setdefault(t, []).append(perm)
                nperm += 1
        finally:
            mm.Geobj.__hash__ = orig
        if len(texts) > 1:
            ts = list(texts)
            which = [i for i in range(3) if len(set(t[i] for t in ts)) > 1]
            viol.append(('HASHORDER-%s' % '+'.join(['cmdline', 'report', 'cmdline-by-geo'][i] for i in which),
                         '%d different outputs over the %d iteration orders of the object sets (e.g. orders %s vs %s)' % (len(texts), nperm, texts[ts[0]][0], texts[ts[1]][0])))
        return dict(viol=viol, canon='hash|%d' % c['cmd'], nontriv=True, trans=nperm, traces=nperm, evals=nperm, dev=0.0, outcome='hashorder:%d' % len(texts))
    if k == 'procs':
        argv = ['-f', '21.3'] + PROC_CMDS[c['cmd']]
        outs = []
        src = os.environ.get('PYMININEC_SRC', '/repo')
        for seed_ in ('0', '1', '12345'):
            with tempfile.TemporaryDirectory() as td:
                a = argv + ['--output-cmdline=%s/o.cmd' % td]
                mixed = any(x.startswith('--load') for x in argv) and any(x.startswith(('--rlc', '--trap', '--laplace')) for x in argv)
                if not mixed:      # BASIC cannot express impedance-type and Laplace-type loads together
                    a.append('--output-basic-input=%s/o.bas' % td)
                env = dict(os.environ, PYTHONHASHSEED=seed_, PYTHONPATH=src, PYTHONDONTWRITEBYTECODE='1', OMP_NUM_THREADS='1', OPENBLAS_NUM_THREADS='1')
                r = subprocess.run([sys.executable, '-c', 'import sys; from mininec.mininec import main; sys.exit(main(sys.argv[1:]) or 0)'] + a,
                                   capture_output=True, env=env, cwd=td)
                fs = []
                for fn in ('o.cmd', 'o.bas'):
                    p = os.path.join(td, fn)
                    fs.append(open(p, 'rb').read().replace(td.encode(), b'TMP') if os.path.exists(p) else None)
                outs.append((r.returncode, r.stdout, fs[0], fs[1]))
        if outs[0][0] != 0 or not outs[0][1]:
            viol.append(('PROC-FAILED', 'exit %s' % outs[0][0]))
        for i in (1, 2):
            for j, what in enumerate(('exit code', 'report', 'option file', 'BASIC input')):
                if outs[i][j] != outs[0][j]:
                    viol.append(('PROC-%s' % what.replace(' ', '-'), '%s differs between two fresh processes of the same command line' % what))
        return dict(viol=viol[:4], canon='proc|%d' % c['cmd'], nontriv=True, trans=3, traces=3, evals=3, dev=0.0, outcome='procs')
