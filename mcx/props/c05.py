"""C05 Rigid-motion and electromagnetic-scaling invariance."""
import itertools, math
import numpy as np
from mcx import geom, obs, cli

PID = 'C05'
CHUNK = 1
TOLERANCE = 'Z, currents 5e-4 (cond-scaled); gain 0.01 dB; segment ends 1e-9*size'
RULE = ('Every in-domain structure with <= D wires on the lattice (free space and ideal ground) x the complete motion '
        'menu (15 single-axis rotations, 6 three-axis rotations, 9 translations up to 1000 wavelengths, 4 scale '
        'factors 0.01..100 with f/s, 8 two-motion sequences in both sort-key orders with options listed against '
        'their keys, per-tag rotations/translations/scales; over ground z-rotations, horizontal shifts, scales). '
        'Three-way comparison: (a) untransformed, (b) moved through --geo-rotate/--geo-translate/--geo-scale and '
        'built by main(), (c) coordinates moved by the harness\' own matrices. (b)=(c) in segment ends, Z, currents; '
        '(a)=(b) in Z, geometrically mapped conductor currents and total gain at 14 directions d vs R*d. '
        'Structures with an arc, a helix or a tapered wire and a collinear pair with a small gap are moved through the '
        'options and compared with the unmoved structure (segment table, Z, conductor currents, gain). State = (structure, motion); transition = one build+solve. Non-trivial: motion is not the identity and the '
        'structure has a junction, a load or a grounded end.')
ASSUMPTIONS = ['rotation order X, then Y, then Z and scaling last are taken from the documentation',
               'per-tag motions are compared (b) vs (c) only (they change the antenna)']

DIRS = [(10., 20.), (35., 80.), (60., 140.), (85., 200.), (110., 260.), (135., 320.), (160., 45.),
        (25., 300.), (50., 10.), (75., 170.), (100., 95.), (125., 230.), (150., 350.), (90., 0.)]


RULE = RULE + ' Thick tapered dipoles (taper types 1-3, both listings, minimum of 2.5 radii binding) are moved through the same motion menu.'


def bounds(tier, seed):
    return dict(max_wires=2 if tier == 'quick' else 3, variant=geom.variant(seed), motions='full menu per structure')


def motions(ground, lam, tier):
    M = []
    if not ground:
        for ax in range(3):
            for a in (17., 90., 180., -33.3, 271.):
                v = [0., 0., 0.]
                v[ax] = a
                M.append([('rotate', 1, v)])
        for v in ([17., -33., 71.], [90., 90., 90.], [180., 17., -90.], [-5., 200., 33.], [271., -271., 45.], [1e-3, 359.999, 720.]):
            M.append([('rotate', 1, v)])
        for d in (0.3, 10., 1000.):
            for u in ([1., 0., 0.], [0., -0.6, 0.8], [0.57735, 0.57735, -0.57735]):
                M.append([('translate', 1, [x * d * lam for x in u])])
        two = [[('rotate', 1, [17., -33., 71.]), ('translate', 2, [0.3 * lam, -lam, 2 * lam])],
               [('translate', 1, [0.3 * lam, -lam, 2 * lam]), ('rotate', 2, [17., -33., 71.])],
               [('rotate', 2.5, [90., 0., 45.]), ('rotate', 0.5, [0., 30., 0.])],
               [('translate', -1, [lam, 0., 0.]), ('scale', 0.5), ('rotate', 3, [0., 0., 90.])]]
    else:
        for a in (17., 90., 180., -33.3, 271.):
            M.append([('rotate', 1, [0., 0., a])])
        for d in (0.3, 10., 1000.):
            for u in ([1., 0., 0.], [-0.6, 0.8, 0.]):
                M.append([('translate', 1, [x * d * lam for x in u])])
        two = [[('rotate', 1, [0., 0., 71.]), ('translate', 2, [0.3 * lam, -lam, 0.])],
               [('translate', 1, [0.3 * lam, -lam, 0.]), ('rotate', 2, [0., 0., 71.])],
               [('translate', -1, [lam, 0., 0.]), ('scale', 0.5), ('rotate', 3, [0., 0., 90.])]]
    for s in (0.01, 0.5, 3.7, 100.):
        M.append([('scale', s)])
    # the same object scaled more than once (radius and coordinates must accumulate alike)
    M.append([('scale', 4.), ('scale', 2.5)])
    M.append([('scale', 0.5), ('translate', 1, [0.2 * lam, 0.1 * lam, 0.]), ('scale', 3.), ('scale', 2.)])
    # sort keys whose numeric order differs from their order as text
    if not ground:
        two.append([('translate', 2, [0.3 * lam, -lam, 2 * lam]), ('rotate', 10, [17., -33., 71.])])
        two.append([('rotate', 9, [90., 0., 45.]), ('rotate', 10, [0., 30., 0.]), ('translate', 100, [lam, 0., 0.])])
    else:
        two.append([('translate', 2, [0.3 * lam, -lam, 0.]), ('rotate', 10, [0., 0., 71.])])
    for seq in two:
        M.append(seq)
        M.append(seq[::-1])     # same keys, options listed in the opposite order
    return M


def compose(seq):
    """harness' own composition: rotations/translations in key order, scaling last -> (R, t, s): x -> s*(R x + t)"""
    R, t, s = np.eye(3), np.zeros(3), 1.0
    for m in sorted([m for m in seq if m[0] != 'scale'], key=lambda m: m[1]):
        if m[0] == 'rotate':
            Rm = geom.rotmat(m[2])
            R, t = Rm @ R, Rm @ t
        else:
            t = t + np.array(m[2], float)
    for m in seq:
        if m[0] == 'scale':
            s *= m[1]
    return R, t, s


def cases(tier, seed):
    yield from gap_cases(tier, seed)
    yield from curved_cases(tier, seed)
    D = 2 if tier == 'quick' else 3
    for ground, special in ((False, False), (True, False), (False, True), (True, True)):
        P, f, lam = geom.lattice(seed, ground=ground, special=special)
        pts = [list(map(float, p)) for p in P]
        for es in geom.edge_sets(5, D):
            nseg = [geom.auto_nseg(np.linalg.norm(P[a] - P[b]), 0.05 * lam) for a, b in es]
            rad = [2e-4 * lam, 3e-5 * lam, 2e-4 * lam]
            st = [dict(a=a, b=b, n=nseg[i], r=rad[i]) for i, (a, b) in enumerate(es)]
            yield dict(env='ideal' if ground else 'free', f=f, lam=lam, pts=pts, st=st)
        if tier == 'quick':
            # a few 3-wire structures also in the quick tier (star, chain, triangle)
            for es in ([(0, 1), (0, 2), (0, 3)], [(0, 1), (1, 4), (4, 2)], [(0, 1), (1, 2), (0, 2)], [(2, 3), (3, 4), (0, 3)]):
                nseg = [geom.auto_nseg(np.linalg.norm(P[a] - P[b]), 0.05 * lam) for a, b in es]
                rad = [2e-4 * lam, 3e-5 * lam, 2e-4 * lam]
                yield dict(env='ideal' if ground else 'free', f=f, lam=lam, pts=pts,
                           st=[dict(a=a, b=b, n=nseg[i], r=rad[i]) for i, (a, b) in enumerate(es)])


def gap_cases(tier, seed):
    """two collinear wires end to end with a gap of 25 matching tolerances (never to be joined), along x and along a
    diagonal: the matching of wire ends must not depend on where the structure sits"""
    rot, sc, f = geom.variant(seed)
    lam = geom.C_MININEC / f
    for env, h in (('free', 0.1), ('ideal', 0.25)):
        for u in ((1., 0., 0.), (0.6, 0.8, 0.)):
            u = np.array(u)
            o = np.array([0.02, -0.03, h]) * lam
            pts = [list(o), list(o + 0.24 * lam * u), list(o + 0.241 * lam * u), list(o + 0.481 * lam * u)]
            yield dict(env=env, f=f, lam=lam, pts=pts, nodomain=True,
                       st=[dict(a=0, b=1, n=6, r=2e-4 * lam), dict(a=2, b=3, n=6, r=2e-4 * lam)])


def curved_cases(tier, seed):
    """structures with an arc, a helix or a tapered wire (first description of each C06 extra): moved through the
    options against the unmoved structure"""
    from mcx.props import c06
    for c in c06.extras(tier, seed):
        if c['extra'].startswith(('telescope', 'distload')) or 'fixed' in c['extra']:
            continue
        yield dict(curved=c['extra'], env=c['env'], f=c['f'], lam=c['lam'], wires=c['descs'][0], srcs=c['srcs'])
    # tapered wires whose smallest natural segment is below the minimum of 2.5 radii (the minimum binds, so the
    # segment table depends on the radius): the moved structure must be segmented like the unmoved one
    _, f, lam = geom.lattice(seed)
    A, B, C = np.array([0., 0., -0.24 * lam]), np.zeros(3), np.array([0., 0.05 * lam, 0.25 * lam])
    for ttype in (1, 2, 3):
        for rr in (0.003, 0.0012):
            r = rr * lam
            if ttype == 1:      # fine ends at the feed, both wires written towards / away from it
                wires = [geom.wire(A, B, 6, r, taper=[2]), geom.wire(B, C, 6, r, taper=[1])]
            elif ttype == 2:    # the same with reversed listing of the ends
                wires = [geom.wire(B, A, 6, r, taper=[1]), geom.wire(C, B, 6, r, taper=[2])]
            else:
                wires = [geom.wire(A, B, 8, r, taper=[3]), geom.wire(B, C, 8, r, taper=[3])]
            yield dict(curved='thicktaper%d-r%g' % (ttype, rr), env='free', f=f, lam=lam, wires=wires,
                       srcs=[dict(at=[0., 0., 0.], dir=[0., 0., 1.], v=[1.0, 0.0])])

def eval_curved(c):
    ground = c['env'] != 'free'
    lam = c['lam']
    a_case = dict(f=c['f'], env=c['env'], wires=c['wires'])
    ma = geom.build(dict(a_case, sources=c['srcs']))
    ma.compute()
    tol, cond = geom.cond_tol(ma)
    if tol is None:
        return dict(viol=[], skipped='cond>1e5', evals=1)
    za = np.array([s.impedance for s in ma.sources])
    dirs = [d for d in DIRS if not ground or d[0] <= 90]
    ga = gain_dirs(ma, dirs)
    gmask = ga > ga.max() - 40
    if ground:
        menu = [[('rotate', 1, [0., 0., 71.])], [('translate', 1, [0.3 * lam, -lam, 0.])], [('scale', 0.5)], [('scale', 3.7)],
                [('translate', -1, [lam, 0., 0.]), ('scale', 2.), ('rotate', 3, [0., 0., 90.])]]
    else:
        menu = [[('rotate', 1, [17., -33., 71.])], [('rotate', 1, [90., 0., 0.])], [('rotate', 1, [0., 180., 45.])],
                [('translate', 1, [0.3 * lam, -lam, 2 * lam])], [('translate', 1, [1000 * lam, 0., 0.])], [('scale', 0.5)], [('scale', 3.7)], [('scale', 4.), ('scale', 0.25)],
                [('translate', -1, [lam, 0., 0.]), ('scale', 2.), ('rotate', 3, [0., 0., 90.])],
                [('rotate', 2.5, [90., 0., 45.]), ('rotate', 0.5, [0., 30., 0.])]]
    viol, canon, worst, wn, n = [], [], 0.0, None, 0
    for seq in menu:
        R, t, s = compose(seq)
        name = '+'.join('%s%s' % (m[0][0], m[1] if m[0] == 'scale' else m[2]) for m in seq)
        n += 1
        mb, diag = cli.build_main(cli.argv(dict(a_case, transforms=[list(m) for m in seq], f=c['f'] / s), ['--excitation-pulse=1']))
        if mb is None:
            viol.append(('REJECTED-curved', '%s: motion %s rejected: %s' % (c['curved'], name, diag)))
            continue
        cli.reset_sources(mb)
        s2, _ = xf_exc(c['srcs'], [], R, t, s)
        try:
            geom.add_sources(mb, s2)
        except (AssertionError, KeyError) as e:
            viol.append(('DEV-ends-curved', '%s: motion %s: no pulse at the moved feed point (%s)' % (c['curved'], name, str(e)[:80])))
            continue
        mb.compute()
        # the harness' own image of the segment table
        ea, eb = segends(ma), segends(mb)
        exp = s * (ea @ R.T + t)
        size = max(1.0, float(np.abs(exp).max()))
        dv = {}
        dv['ends'] = (float(np.abs(eb - exp).max() / size) if eb.shape == exp.shape else float('inf')) / 1e-9 * tol
        zb = np.array([x.impedance for x in mb.sources])
        dv['Z_ab'] = float(np.max(np.abs(za - zb) / np.abs(za)))
        x = geom.cmp_half_currents(geom.half_currents(ma).transformed(R, t, s), geom.half_currents(mb))
        dv['I_ab'] = float('inf') if x is None else x
        gb = gain_dirs(mb, [rot_dir(R, th, ph) for th, ph in dirs])
        dv['G_ab'] = float(np.max(np.abs(ga - gb)[gmask])) / 0.01 * tol
        canon.append('%s|%s' % (c['curved'], name))
        for k, x in dv.items():
            if x / tol > worst:
                worst, wn = x / tol, (k, name)
            if not (x <= tol):
                viol.append(('DEV-%s-curved' % k, '%s: %s deviates %.3g (tolerance-scaled limit %.3g) for motion %s, cond %.0f' % (c['curved'], k, x, tol, name, cond)))
    return dict(viol=viol[:8], canon=canon, nontriv=True, trans=2 * n, traces=n, evals=2 * n, dev=worst * tol, outcome='curved', note=dict(worst=wn, cond=cond))


def base_case(c):
    pts = [np.array(p) for p in c['pts']]
    return dict(f=c['f'], env=c['env'], wires=[geom.wire(pts[e['a']], pts[e['b']], e['n'], e['r']) for e in c['st']])


def xf_case(case, R, t, s):
    ws = []
    for w in case['wires']:
        ws.append(geom.wire(s * (R @ np.array(w['p1']) + t), s * (R @ np.array(w['p2']) + t), w['n'], w['r'] * s))
    return dict(f=case['f'] / s, env=case['env'], wires=ws)


def xf_exc(srcs, loads, R, t, s):
    s2 = [dict(at=list(s * (R @ np.array(x['at']) + t)), dir=list(R @ np.array(x['dir'])), v=x['v']) for x in srcs]
    l2 = [dict(l, at=list(s * (R @ np.array(l['at']) + t))) for l in loads]
    return s2, l2


def gain_dirs(m, dirs):
    g = []
    for th, ph in dirs:
        _, _, gg = obs.far(m, (th, 1., 1), (ph, 1., 1))
        g.append(gg[0, 0, 2])
    return np.array(g)


def rot_dir(R, th, ph):
    th, ph = math.radians(th), math.radians(ph)
    d = R @ np.array([math.sin(th) * math.cos(ph), math.sin(th) * math.sin(ph), math.cos(th)])
    return math.degrees(math.acos(max(-1., min(1., d[2])))), math.degrees(math.atan2(d[1], d[0]))


def segends(m):
    return np.array([[s.p1, s.p2] for g in m.geo for s in g.segments], float)


def evaluate(c):
    if 'curved' in c:
        return eval_curved(c)
    from mcx.props.c06 import excitation
    ground = c['env'] != 'free'
    a_case = base_case(c)
    reason = None if c.get('nodomain') else geom.domain(a_case, c['lam'], ground=ground)
    if reason:
        return dict(viol=[], skipped='domain:' + reason, evals=0)
    srcs, loads = excitation(c)
    if srcs is None:
        return dict(viol=[], skipped='no-feed-position', evals=0)
    ma = geom.build(dict(a_case, sources=srcs, loads=loads))
    ma.compute()
    tol, cond = geom.cond_tol(ma)
    if tol is None:
        return dict(viol=[], skipped='cond>1e5', evals=1)
    ha = geom.half_currents(ma)
    za = np.array([s.impedance for s in ma.sources])
    dirs = [d for d in DIRS if not ground or d[0] <= 90]
    ga = gain_dirs(ma, dirs)
    gmask = ga > ga.max() - 40
    viol, worst, wn, n = [], 0.0, None, 0
    canon = []
    for seq in motions(ground, c['lam'], None):
        R, t, s = compose(seq)
        n += 1
        name = '+'.join('%s%s' % (m[0][0], m[1] if m[0] == 'scale' else m[2]) for m in seq)
        # (b) through the options
        tr = [list(m) for m in seq]
        bcase = dict(a_case, transforms=tr, f=c['f'] / s)
        mb, diag = cli.build_main(cli.argv(bcase, ['--excitation-pulse=1']))
        if mb is None:
            viol.append(('REJECTED', 'motion %s rejected: %s' % (name, diag)))
            continue
        cli.reset_sources(mb)
        s2, l2 = xf_exc(srcs, loads, R, t, s)
        try:
            geom.add_sources(mb, s2)
            geom.add_loads(mb, l2)
        except (AssertionError, KeyError) as e:
            viol.append(('DEV-ends-%s' % ('seq' if len(seq) > 1 else seq[0][0]), 'motion %s: the structure built through the options has no pulse at the moved feed / load point (%s)' % (name, str(e)[:80])))
            continue
        mb.compute()
        # (c) through the coordinates
        mc = geom.build(dict(xf_case(a_case, R, t, s), sources=s2, loads=l2))
        mc.compute()
        size = max(1.0, float(np.abs(segends(mc)).max()))
        dv = {}
        dv['ends'] = float(np.abs(segends(mb) - segends(mc)).max() / size) / 1e-9 * tol   # scaled so that tol applies
        zb = np.array([x.impedance for x in mb.sources])
        zc = np.array([x.impedance for x in mc.sources])
        dv['Z_bc'] = float(np.max(np.abs(zb - zc) / np.abs(zc)))
        hb, hcc = geom.half_currents(mb), geom.half_currents(mc)
        x = geom.cmp_half_currents(hb, hcc)
        dv['I_bc'] = float('inf') if x is None else x
        dv['Z_ab'] = float(np.max(np.abs(za - zb) / np.abs(za)))
        x = geom.cmp_half_currents(ha.transformed(R, t, s), hb)
        dv['I_ab'] = float('inf') if x is None else x
        gb = gain_dirs(mb, [rot_dir(R, th, ph) for th, ph in dirs])
        dv['G_ab'] = float(np.max(np.abs(ga - gb)[gmask])) / 0.01 * tol
        canon.append(name)
        for k, x in dv.items():
            if x / tol > worst:
                worst, wn = x / tol, (k, name)
            if not (x <= tol):
                kind = 'seq' if len(seq) > 1 else seq[0][0]
                viol.append(('DEV-%s-%s' % (k, kind), '%s deviates %.3g (tolerance-scaled limit %.3g) for motion %s, cond %.0f' % (k, x, tol, name, cond)))
    # per-tag motions: (b) vs (c) only
    nw = len(c['st'])
    for tagged in per_tag(c, ground):
        n += 1
        tr, fn = tagged
        bcase = dict(a_case, transforms=tr)
        mb, diag = cli.build_main(cli.argv(bcase, ['--excitation-pulse=1']))
        if mb is None:
            viol.append(('REJECTED', 'per-tag motion %s rejected: %s' % (tr, diag)))
            continue
        ccase = dict(a_case, wires=[fn(i, w) for i, w in enumerate(a_case['wires'])])
        mc = geom.build(ccase)
        size = max(1.0, float(np.abs(segends(mc)).max()))
        d = float(np.abs(segends(mb) - segends(mc)).max() / size)
        if d > 1e-9:
            viol.append(('DEV-ends-pertag', 'segment ends differ by %.3g*size for %s' % (d, tr)))
        if len(mb.pulses) != len(mc.pulses):
            viol.append(('DEV-pulses-pertag', 'pulse count %d vs %d for %s' % (len(mb.pulses), len(mc.pulses), tr)))
        else:
            rb = np.array([sg.geobj.r for g in mb.geo for sg in g.segments])
            rc = np.array([sg.geobj.r for g in mc.geo for sg in g.segments])
            if np.abs(rb / rc - 1).max() > 1e-9:
                viol.append(('DEV-radius-pertag', 'wire radii %s vs %s for %s' % (sorted(set(rb)), sorted(set(rc)), tr)))
            mb.compute_impedance_matrix()
            mc.compute_impedance_matrix()
            dz = float(np.abs(mb.Z - mc.Z).max() / np.abs(mc.Z).max())
            # 1e-6: the two descriptions differ by coordinate rounding (1e-16), which nearly touching wires (a per-tag
            # scale can push one wire onto another) amplify to ~1e-7; the property itself asks for 5e-4
            if dz > 1e-6:
                viol.append(('DEV-Zmat-pertag', 'impedance matrices differ by %.3g for %s' % (dz, tr)))
        canon.append('tag:%s' % tr)
    und = sorted((e['a'], e['b'], e['n']) for e in c['st'])
    return dict(viol=viol[:8], canon=['%s|%s|%s' % (c['env'], und, x) for x in canon], nontriv=True,
                trans=3 * n, traces=n, evals=3 * n, dev=worst * tol, outcome='wires=%d' % nw, note=dict(worst=wn, cond=cond))


def per_tag(c, ground):
    """per-tag transformations and the harness' equivalent on the coordinates"""
    out = []
    nw = len(c['st'])
    last = nw   # automatic tags 1..n in listing order
    lam = c['lam']

    def mk(kind, key, vec, tag):
        if kind == 'rotate':
            Rm = geom.rotmat(vec)
            f = lambda i, w: geom.wire(Rm @ np.array(w['p1']), Rm @ np.array(w['p2']), w['n'], w['r']) if i == tag - 1 else w
        elif kind == 'translate':
            f = lambda i, w: geom.wire(np.array(w['p1']) + vec, np.array(w['p2']) + vec, w['n'], w['r']) if i == tag - 1 else w
        return ([[kind, key, list(vec), tag]], f)
    if not ground:
        out.append(mk('rotate', 1, [10., 20., -30.], last))
        out.append(mk('translate', 1, [3 * lam, 2 * lam, -lam], last))
        out.append(mk('translate', 1, [3 * lam, 2 * lam, -lam], 1))
    else:
        out.append(mk('translate', 1, [3 * lam, 2 * lam, 0.], last))
    s = 0.5

    def fs(i, w):
        return geom.wire(np.array(w['p1']) * s, np.array(w['p2']) * s, w['n'], w['r'] * s) if i == last - 1 else w
    out.append(([['scale', s, last]], fs))
    # per-tag scale followed by a whole-structure scale, and a per-tag scale given twice
    s1, s2 = 1.25, 0.0254

    def fs2(i, w):
        k = s1 * s2 if i == last - 1 else s2
        return geom.wire(np.array(w['p1']) * k, np.array(w['p2']) * k, w['n'], w['r'] * k)
    out.append(([['scale', s1, last], ['scale', s2]], fs2))

    def fs3(i, w):
        k = 6. if i == 0 else 1.
        return geom.wire(np.array(w['p1']) * k, np.array(w['p2']) * k, w['n'], w['r'] * k)
    out.append(([['scale', 2., 1], ['scale', 3., 1]], fs3))
    return out
