"""C12 Number and placement of current unknowns follow from the wire topology."""
import itertools
import numpy as np
from mcx import geom
from mcx.ref import topo

PID = 'C12'
CHUNK = 4
RULE = ('All directed descriptions (every order x every orientation) of all simple graphs with '
        '<= D wires on the 5-point (thorough: also 7-point) lattice x all segment-count vectors from '
        '{1,2,3}^n, in free space and over ideal ground (two lattice points on the plane), plus end-point '
        'perturbations of 0.4/0.99/1.01/2.5 e-3 of the shortest segment in 3 directions on every wire end that '
        'takes part in a junction, plus two-ends-perturbed triples (thorough), plus every orientation of every connected-'
        'somewhere graph with each wire in turn described elsewhere (on another wire\'s far end / far away / scaled / rotated) '
        'and brought into place by a per-tag transformation option through main(); plus a tapered wire (3 types, either end, '
        'reversed, 3 listing orders) with an arm 0..0.03 shortest-segment lengths beside its end and a base that far above the plane. A state is the undirected '
        'structure (edge set, segment counts, environment, perturbation); a transition is one description '
        'of it that is built with the real constructor. Non-trivial: the structure has at least one '
        'junction or grounded end (pulse count differs from sum(segments-1)).')
ASSUMPTIONS = ['straight wires only in the enumerated space; arcs/helices closed on themselves are covered by a fixed list',
               'reference clustering (union of ends closer than 1e-3 of the shortest segment) is the property statement itself']
TOLERANCE = 'exact (counts, numbering); positions 1e-9 relative, 1.1e-3*Lmin at fuzzily matched ends'


def bounds(tier, seed):
    return dict(max_wires=3 if tier == 'quick' else 4, lattice=5,
                segcounts='{1,2,3}^n (<=3 wires); one vector for 4 wires', variant=geom.variant(seed))


def taper_cases(tier, seed):
    """near-coincidences measured against the shortest segment of a TAPERED wire (the structure-wide tolerance is
    1e-3 of the shortest segment anywhere): arm end d beside either boom end, vertical base h above the plane"""
    rot, sc, f = geom.variant(seed)
    lam = geom.C_MININEC / f
    mags = (0., 0.4e-3, 0.99e-3, 1.01e-3, 2.5e-3, 3e-2)
    for ttype in (1, 2, 3, 4):          # 4: helix whose radius shrinks towards end 2 (segments get shorter)
        for env in ('free', 'ideal'):
            for bend in (0, 1):
                if ttype == 4 and env == 'ideal' and bend == 0:
                    continue        # a helix starts on z = 0: over ground that end is grounded
                for order in (0, 1, 2):
                    for rev in (0, 1):
                        yield dict(taper=ttype, env=env, f=f, lam=lam, bend=bend, order=order, rev=rev, mags=mags)


def cases(tier, seed):
    yield from extra_cases(tier, seed)
    yield from taper_cases(tier, seed)
    D = 3
    for ground in (False, True):
        P, f, lam = geom.lattice(seed, ground=ground)
        pts = [list(map(float, p)) for p in P]
        for es in geom.edge_sets(5, D):
            n = len(es)
            if ground:
                segsets = list(itertools.product((1, 2), repeat=n))
            else:
                segsets = list(itertools.product((1, 2, 3), repeat=n))
            for order in itertools.permutations(range(n)):
                for flips in itertools.product((0, 1), repeat=n):
                    edges = [list(es[i][::-1] if flips[k] else es[i]) for k, i in enumerate(order)]
                    yield dict(env='ideal' if ground else 'free', f=f, pts=pts, edges=edges,
                               segsets=[[s[i] for i in order] for s in segsets])
                    # explicit tags that are neither consecutive nor in listing order (objects are numbered by tag)
                    if flips == (0,) * n or flips == (1,) * n:
                        yield dict(env='ideal' if ground else 'free', f=f, pts=pts, edges=edges, segsets=[[2] * n, [1, 2, 3][:n]],
                                   tags=[(7, 2, 5)[i] for i in range(n)])
        # one wire described elsewhere and brought into place by a per-tag --geo-translate/-scale/-rotate through main():
        # elsewhere = with an end on the far end of another wire (a junction that must vanish), or far away
        for es in geom.edge_sets(5, D):
            n = len(es)
            used = sorted(set(v for e in es for v in e))
            if n < 2 or len(used) == 2 * n:
                continue
            for flips in itertools.product((0, 1), repeat=n):
                edges = [list(es[i][::-1] if flips[i] else es[i]) for i in range(n)]
                for k in range(n):
                    mv = [dict(wire=k, how='translate', d=[3 * lam, 2 * lam, 0. if ground else -lam])]
                    if not ground:
                        mv += [dict(wire=k, how='scale'), dict(wire=k, how='rotate')]
                    for q in used:
                        for e in (0, 1):
                            if q not in edges[k] and abs(pts[q][2] - pts[edges[k][e]][2]) < 1e-12:
                                mv.append(dict(wire=k, how='translate', d=list(np.array(pts[edges[k][e]]) - np.array(pts[q]))))
                    for m_ in mv:
                        yield dict(env='ideal' if ground else 'free', f=f, pts=pts, edges=edges, segsets=[[2] * n, [1, 3, 2][:n]], moved=m_)
        # perturbed ends: one end of one wire moved by d*Lmin in 3 directions
        dirs = [(1, 0, 0), (0, 0.6, 0.8), (-0.57735, 0.57735, 0.57735)]
        for es in geom.edge_sets(5, 2 if tier == 'quick' else 3, dmin=2):
            n = len(es)
            deg = {}
            for e in es:
                for v in e:
                    deg[v] = deg.get(v, 0) + 1
            if max(deg.values()) < 2:
                continue
            for order in itertools.permutations(range(n)):
                edges = [list(es[i]) for i in order]
                for wi in range(n):
                    for ei in (0, 1):
                        if deg[edges[wi][ei]] < 2:
                            continue
                        for mag in (0.4e-3, 0.99e-3, 1.01e-3, 2.5e-3):
                            for dv in dirs:
                                if ground and dv[2] != 0:
                                    # keep the perturbed point off / on the plane unambiguously
                                    if abs(pts[edges[wi][ei]][2]) < 1e-9:
                                        continue
                                yield dict(env='ideal' if ground else 'free', f=f, pts=pts, edges=edges,
                                           segsets=[[2] * n, [1] + [3] * (n - 1)],
                                           perturb=dict(wire=wi, end=ei, mag=mag, dir=list(dv)))
    if tier == 'thorough':
        # 7-point lattices: all descriptions of the <= 3-wire graphs that use the two extra points, segment counts {1,2}^n
        for ground in (False, True):
            P, f, lam = geom.lattice(seed, ground=ground, n=7)
            pts = [list(map(float, p)) for p in P]
            for es in geom.edge_sets_new(7, 3):
                n = len(es)
                segsets = list(itertools.product((1, 2), repeat=n))
                for order in itertools.permutations(range(n)):
                    for flips in itertools.product((0, 1), repeat=n):
                        edges = [list(es[i][::-1] if flips[k] else es[i]) for k, i in enumerate(order)]
                        yield dict(env='ideal' if ground else 'free', f=f, pts=pts, edges=edges, segsets=[[s_[i] for i in order] for s_ in segsets])
        # 4-wire graphs, one segment-count vector per graph, all descriptions
        P, f, lam = geom.lattice(seed, ground=False)
        pts = [list(map(float, p)) for p in P]
        for es in geom.edge_sets(5, 4, dmin=4):
            for order in itertools.permutations(range(4)):
                for flips in itertools.product((0, 1), repeat=4):
                    edges = [list(es[i][::-1] if flips[k] else es[i]) for k, i in enumerate(order)]
                    yield dict(env='free', f=f, pts=pts, edges=edges, segsets=[[2, 1, 3, 2]])
    if True:
        P, f, lam = geom.lattice(seed, ground=False)
        pts = [list(map(float, p)) for p in P]
        # two perturbed ends at one 3-junction: |AC|,|BC| < tol < |AB| (quick: the first star only, all listing orders)
        nstar = 0
        for es in geom.edge_sets(5, 3, dmin=3):
            deg = {}
            for e in es:
                for v in e:
                    deg[v] = deg.get(v, 0) + 1
            hub = [v for v, d in deg.items() if d == 3]
            if not hub:
                continue
            nstar += 1
            if tier == 'quick' and nstar > 1:
                break
            for order in itertools.permutations(range(3)):
                edges = [list(es[i]) for i in order]
                yield dict(env='free', f=f, pts=pts, edges=edges, segsets=[[2, 2, 2]],
                           perturb2=dict(hub=hub[0], mag=0.7e-3))


def extra_cases(tier, seed):
    from mcx.props import c06
    f = 30.0            # fixed, seed-independent geometry: one of these orders is a listed known finding
    lam = geom.C_MININEC / f
    # arcs closed on themselves, alone, with a tail from the closing point, and two half circles closing each other
    for n in (3, 4, 5, 8):
        R = 0.05 * lam
        loop = dict(kind='arc', n=n, radius=R, ang1=0., ang2=360., r=1e-4 * lam)
        yield dict(extra='closed-arc-n%d' % n, env='free', f=f, wires=[loop])
        tail = geom.wire([R, 0., 0.], [R + 0.04 * lam, 0.03 * lam, 0.01 * lam], 2, 1e-4 * lam)
        yield dict(extra='closed-arc-tail-n%d' % n, env='free', f=f, wires=[loop, tail])
        yield dict(extra='tail-closed-arc-n%d' % n, env='free', f=f, wires=[tail, loop])
        h1 = dict(kind='arc', n=n, radius=R, ang1=0., ang2=180., r=1e-4 * lam)
        h2 = dict(kind='arc', n=n, radius=R, ang1=180., ang2=360., r=1e-4 * lam)
        h2r = dict(kind='arc', n=n, radius=R, ang1=360., ang2=180., r=1e-4 * lam)
        yield dict(extra='two-half-arcs-n%d' % n, env='free', f=f, wires=[h1, h2])
        yield dict(extra='two-half-arcs-rev-n%d' % n, env='free', f=f, wires=[h1, h2r])
    # curve ends that are on the plane only numerically: half loops (sin(pi) = 1.2e-16), in both directions, with a tail on top
    for n in (4, 6, 9):
        R = 0.05 * lam
        for a1, a2 in ((0., 180.), (180., 0.), (0., 90.), (90., 0.), (180., 90.)):
            arc = dict(kind='arc', n=n, radius=R, ang1=a1, ang2=a2, r=1e-4 * lam)
            yield dict(extra='ground-arc-%g-%g-n%d' % (a1, a2, n), env='ideal', f=f, wires=[arc])
    for c in c06.extras(tier, seed):
        for i, ws in enumerate(c['descs']):
            yield dict(extra='%s#%d' % (c['extra'], i), env=c['env'], f=c['f'], wires=ws)


def eval_extra(c):
    """two-object structures with a curved or tapered member: pulse count formula and pulse geometry"""
    ground = c['env'] != 'free'
    m = geom.build(dict(f=c['f'], env=c['env'], wires=c['wires']), sources=False, loads=False)
    viol = list(geom.pulse_geometry_violations(m))
    nseg = sum(g.n_segments for g in m.geo)
    # grounded ends from the segment tables (an end within the matching tolerance of the plane), not from the model's flags
    tolg = 1e-3 * min(sg.seg_len for g in m.geo for sg in g.segments)
    gflag = [[ground and abs(float(g.segments[0].p1[2])) < tolg, ground and abs(float(g.segments[-1].p2[2])) < tolg] for g in m.geo]
    ngnd = sum(int(a) + int(b) for a, b in gflag)
    for g, (a, b) in zip(m.geo, gflag):
        if (bool(g.is_ground[0]), bool(g.is_ground[1])) != (a, b):
            viol.append(('GROUND-FLAG', 'object %d: ends at z = %.3g / %.3g are flagged grounded %s' % (g.n + 1, float(g.segments[0].p1[2]), float(g.segments[-1].p2[2]), tuple(map(bool, g.is_ground)))))
    # junctions: cluster the non-grounded object ends (exact coincidences in these structures)
    ends = []
    for gi, g in enumerate(m.geo):
        for e, p in ((0, g.segments[0].p1), (1, g.segments[-1].p2)):
            if not gflag[gi][e]:
                ends.append(np.array(p, float))
    tol = tolg
    used = [False] * len(ends)
    njun = 0
    for i in range(len(ends)):
        if used[i]:
            continue
        grp = [j for j in range(i, len(ends)) if not used[j] and np.linalg.norm(ends[j] - ends[i]) < tol]
        for j in grp:
            used[j] = True
        njun += len(grp) - 1
    N = nseg - len(m.geo) + ngnd + njun
    if len(m.pulses) != N:
        viol.append(('COUNT', 'pulses %d expected %d' % (len(m.pulses), N)))
    seq = [p.idx for g in m.geo for p in g.pulses]
    if seq != list(range(len(m.pulses))):
        viol.append(('NUMBERING', 'pulse idx in object order: %s' % seq))
    return dict(viol=[(a, c['extra'] + ': ' + b) for a, b in viol[:5]], canon='extra|' + c['extra'], nontriv=True, outcome='extra', dev=0.0)


def _mkcase(c, segs):
    pts = [np.array(p, float) for p in c['pts']]
    ws = []
    for k, ((a, b), n) in enumerate(zip(c['edges'], segs)):
        ws.append(geom.wire(pts[a], pts[b], n, 1e-4, tag=(c['tags'][k] if c.get('tags') else None)))
    return dict(f=c['f'], env=c['env'], wires=ws)


def _apply_perturb(c, case):
    lmin = topo.min_seglen(case)
    if 'perturb' in c:
        p = c['perturb']
        w = case['wires'][p['wire']]
        k = 'p1' if p['end'] == 0 else 'p2'
        w[k] = list(np.array(w[k]) + np.array(p['dir']) * p['mag'] * lmin)
    if 'perturb2' in c:
        # the three wires meeting at the hub: first listed keeps C, the other two get A, B with
        # |AC| = |BC| = mag*Lmin, |AB| = 2*mag*Lmin > tol
        hub = c['perturb2']['hub']
        mag = c['perturb2']['mag']
        hubp = np.array(c['pts'][hub])
        d = np.array([0.6, 0.0, 0.8]) * mag * lmin
        offs = [d, np.zeros(3), -d]   # order: A, C, B in listing order 0,1,2
        for (a, b), w, o in zip(c['edges'], case['wires'], offs):
            k = 'p1' if a == hub else 'p2'
            assert np.allclose(w[k], hubp)
            w[k] = list(hubp + o)


def check_model(m, case, ground):
    """compare a built model with the topology reference; returns list of (sig, msg)"""
    v = []
    N, junc, gnd, free, amb = topo.expected_count(case, ground)
    lmin = topo.min_seglen(case)
    tol = 1.1e-3 * lmin
    if len(m.pulses) != N:
        v.append(('COUNT', 'pulses %d expected %d' % (len(m.pulses), N)))
        return v, N, junc, gnd
    # numbering in object order
    seq = [p.idx for g in m.geo for p in g.pulses]
    if seq != list(range(N)):
        v.append(('NUMBERING', 'pulse idx in object order: %s' % seq))
    tags = [g.tag for g in m.geo]
    if tags != sorted(tags):
        v.append(('ORDER', 'objects not in tag order %s' % tags))
    for g in m.geo:
        for k, p in enumerate(g.pulses):
            if p.geobj is not g:
                v.append(('OWNER', 'pulse %d listed under object %d but owner %d' % (p.idx, g.n, p.geobj.n)))
    # each pulse on a joint shared by its two segments, segs belong to geo
    for p in m.pulses:
        pt = np.array(p.point, float)
        for i in (0, 1):
            s = p.segs[i]
            if s.geobj is not p.geo[i]:
                v.append(('SEGOWNER', 'pulse %d seg %d' % (p.idx, i)))
            d = min(np.linalg.norm(pt - s.p1), np.linalg.norm(pt - s.p2))
            if d > tol:
                v.append(('JOINT', 'pulse %d point %s not an end of its segment %d (%g)' % (p.idx, pt, i, d)))
    # expected positions
    want = []
    for wi, w in enumerate(case['wires']):
        for q in geom.seg_ends(w)[1:-1]:
            want.append(('i', wi, q))
    for (wi, e) in gnd:
        want.append(('g', wi, np.array(case['wires'][wi]['p1' if e == 0 else 'p2'], float)))
    got = [(np.array(p.point, float), p) for p in m.pulses]
    used = set()
    for kind, wi, q in want:
        hit = None
        for k, (pt, p) in enumerate(got):
            if k in used:
                continue
            if np.linalg.norm(pt - q) <= 1e-9 * max(1.0, np.linalg.norm(q)) + (tol if kind == 'g' else 0):
                gi = set(id(x) for x in p.geo)
                if kind == 'i' and not (p.geo[0] is p.geo[1]) :
                    continue
                if kind == 'g' and not p.ground.any():
                    continue
                hit = k
                break
        if hit is None:
            v.append(('POSITION', 'no pulse for %s joint of wire %d at %s' % (kind, wi, q)))
        else:
            used.add(hit)
    rest = [got[k] for k in range(len(got)) if k not in used]
    # rest must be the junction pulses: spanning tree per junction
    # map wire object order: m.geo is in tag order = listing order (automatic tags)
    for jn in junc:
        jpts = [np.array(case['wires'][wi]['p1' if e == 0 else 'p2'], float) for wi, e in jn]
        wires = [wi for wi, e in jn]
        mine = []
        for pt, p in rest:
            if min(np.linalg.norm(pt - q) for q in jpts) <= tol:
                mine.append(p)
        if len(mine) != len(jn) - 1:
            v.append(('JUNCTION', 'junction %s has %d pulses' % (jn, len(mine))))
            continue
        comp = {w: w for w in wires}

        def find(x):
            while comp[x] != x:
                x = comp[x]
            return x
        for p in mine:
            a, b = p.geo[0].n, p.geo[1].n
            if a == b or a not in comp or b not in comp:
                v.append(('JUNCTION', 'junction pulse %d joins objects %d,%d not of junction %s' % (p.idx, a, b, jn)))
                continue
            comp[find(a)] = find(b)
        if len(set(find(w) for w in wires)) != 1:
            v.append(('JUNCTION', 'junction pulses do not connect all ends of %s' % (jn,)))
    # report rows
    rep = m.wires_as_mininec()
    geo_part = rep.split('**** ANTENNA GEOMETRY ****')[1]
    rows = [l for l in geo_part.split('\n') if len(l.split()) == 7 and l.split()[-1].isdigit() and l.split()[0] != '-']
    nums = [int(l.split()[-1]) for l in rows]
    # END1 / END2 columns: tag of the object each half of the pulse lies on (0 = free end)
    if len(rows) == len(m.pulses):
        for l, p in zip(rows, m.pulses):
            t = l.split()
            for h in (0, 1):
                cval = int(t[4 + h])
                if cval != 0 and abs(cval) != p.geo[h].tag:
                    v.append(('REPORT-END', 'pulse %d is reported with object %d at END%d, its segment there belongs to object %d' % (p.idx + 1, cval, h + 1, p.geo[h].tag)))
    if nums != list(range(1, N + 1)):
        v.append(('REPORT', 'geometry table pulse numbers %s, expected 1..%d' % (nums, N)))
    return v, N, junc, gnd


def eval_taper(c):
    import mininec.mininec as mm
    lam, f, env = c['lam'], c['f'], c['env']
    ground = env != 'free'
    r = 2e-4 * lam
    z0 = 0.12 * lam
    A, B = np.array([0., 0., z0]), np.array([0.27, 0.03, z0 + 0.02 * lam / 1.0]) * np.array([lam, lam, 1.])
    if c['taper'] == 4:
        hl = 0.1 * lam
        boom = dict(kind='helix', n=12, length=hl, turnlen=(-1 if c['rev'] else 1) * 0.05 * lam, r=r, radii=[0.03 * lam, 0.03 * lam, 0.004 * lam, 0.004 * lam])
    else:
        boom = geom.wire(B, A, 7, r, taper=[{1: 2, 2: 1, 3: 3}[c['taper']]]) if c['rev'] else geom.wire(A, B, 7, r, taper=[c['taper']])
    mb = geom.build(dict(f=f, env=env, wires=[boom]), sources=False, loads=False)
    lens = [sg.seg_len for sg in mb.geo[0].segments]
    lmin = min(lens)
    if c['taper'] == 4:
        A, B = np.array(mb.geo[0].segments[0].p1, float), np.array(mb.geo[0].segments[-1].p2, float)
        if lens[0] < 2 * lmin:
            return dict(viol=[('HARNESS', 'helix segments do not shrink')])
    J = B if c['bend'] else A
    u = np.array([0.36, -0.48, 0.8])
    viol, canon, nontriv = [], [], []
    ev = 0
    for d in c['mags']:
        for h in c['mags'] if ground else (None,):
            X = J + u * d * lmin
            T = X + np.array([0.02, 0.09, 0.05]) * lam
            arm = geom.wire(X, T, 2, r)
            ws = [boom, arm]
            if ground:
                G = np.array([0.1 * lam, 0.2 * lam, h * lmin])
                ws.append(geom.wire(G, G + np.array([0., 0., 0.11 * lam]), 2, r))
            ws = [ws[i] for i in ((0, 1, 2), (1, 0, 2), (2, 1, 0))[c['order']] if i < len(ws)]
            case = dict(f=f, env=env, wires=ws)
            ev += 1
            try:
                m = geom.build(case, sources=False, loads=False)
            except ValueError as e:
                viol.append(('REJECTED-taper', 'valid structure rejected: %s' % e))
                continue
            tol = 1e-3 * min(sg.seg_len for g in m.geo for sg in g.segments)
            # end clustering (for the helix: on its true end points taken from its segment table)
            cw = [dict(p1=list(A), p2=list(B), n=w_['n']) if w_.get('kind') == 'helix' else w_ for w_ in ws]
            junc, gnd, free, amb = topo.clusters(dict(case, wires=cw), ground, tol=tol)
            N = sum(w['n'] - 1 for w in ws) + len(gnd) + sum(len(x) - 1 for x in junc)
            name = 'taper%d %s boom end %d%s, listing %d: arm %.3g and base %s shortest segments (%.4g) away' % (
                c['taper'], env, c['bend'] + 1, ' (reversed)' if c['rev'] else '', c['order'], d, h, lmin)
            if abs(tol - 1e-3 * lmin) > 1e-9 * tol:
                viol.append(('TAPER-LMIN', name + ': shortest segment of the structure %g is not that of the tapered wire alone %g' % (tol * 1e3, lmin)))
            if len(m.pulses) != N:
                viol.append(('COUNT-taper', name + ': pulses %d expected %d' % (len(m.pulses), N)))
            if [p.idx for g in m.geo for p in g.pulses] != list(range(len(m.pulses))):
                viol.append(('NUMBERING-taper', name + ': pulses not numbered in object order'))
            viol += [(a + '-taper', name + ': ' + b) for a, b in geom.pulse_geometry_violations(m)[:2]]
            canon.append('taper%d|%s|%d|%d|%d|%g|%s' % (c['taper'], env, c['bend'], c['order'], c['rev'], d, h))
            nontriv.append(True)
    return dict(viol=viol[:6], canon=canon, nontriv=nontriv, trans=ev, traces=ev, evals=ev, outcome='taper', dev=0.0)


def evaluate(c):
    if 'extra' in c:
        return eval_extra(c)
    if 'taper' in c:
        return eval_taper(c)
    import mininec.mininec as mm
    ground = c['env'] != 'free'
    viol, canon, nontriv, outcomes = [], [], [], {}
    ev = 0
    skips = {}
    for segs in c['segsets']:
        case = _mkcase(c, segs)
        _apply_perturb(c, case)
        ev += 1
        N, junc, gnd, free, amb = topo.expected_count(case, ground)
        und = sorted((tuple(sorted(e)), s) for e, s in zip(c['edges'], segs))
        cn = '%s|%s|%s|%s%s' % (c['env'], und, c.get('perturb'), c.get('perturb2'), '|tags' if c.get('tags') else '')
        if 'moved' in c:
            mv = c['moved']
            cn += '|moved%d:%s%s' % (mv['wire'], mv['how'], [round(x, 6) for x in mv.get('d', [])])
        both = any(sum(1 for (wi, e) in gnd if wi == i) == 2 for i in range(len(case['wires'])))
        try:
            if 'moved' in c:
                from mcx import cli
                m, diag = cli.build_moved(case, c['moved']['wire'], c['moved'].get('d'), c['moved']['how'])
                if m is None:
                    if both:
                        skips['both-ends-grounded(rejected)'] = skips.get('both-ends-grounded(rejected)', 0) + 1
                    elif N == 0:
                        skips['no-pulse'] = skips.get('no-pulse', 0) + 1
                    else:
                        viol.append(('REJECTED-moved', 'valid structure rejected when wire %d is moved into place by %s: %s' % (c['moved']['wire'] + 1, c['moved']['how'], diag)))
                    continue
            else:
                m = geom.build(case, sources=False, loads=False)
        except ValueError as e:
            if both and 'Both ends' in str(e):
                skips['both-ends-grounded(rejected)'] = skips.get('both-ends-grounded(rejected)', 0) + 1
                continue
            viol.append(('REJECTED', 'valid structure rejected: %s' % e))
            continue
        if both:
            skips['both-ends-grounded(accepted)'] = skips.get('both-ends-grounded(accepted)', 0) + 1
            continue
        if c.get('tags'):
            case = dict(case, wires=sorted(case['wires'], key=lambda w: w['tag']))
        vv, N, junc, gnd = check_model(m, case, ground)
        if c.get('tags'):
            vv = [(s_ + '-tags', msg + ' [tags %s]' % c['tags']) for s_, msg in vv]
        if 'moved' in c:
            vv = [(s_ + '-moved', msg + ' [wire %d moved into place by --geo-%s]' % (c['moved']['wire'] + 1, c['moved']['how'])) for s_, msg in vv]
        if amb:
            vv = [('AMBIGUOUS-' + s, msg) for s, msg in vv]
        viol += vv
        canon.append(cn)
        nontriv.append(bool(junc or gnd))
    oc = 'N=%d' % N
    return dict(viol=viol, canon=canon, nontriv=nontriv, trans=len(canon), traces=len(canon), evals=ev,
                outcome=oc, skips=skips, dev=0.0)
