"""C16 Field tables contain exactly the requested sample points."""
import itertools
import numpy as np
from mcx import cli
from mcx.ref import report

PID = 'C16'
CHUNK = 2
TOLERANCE = 'point count exact; coordinates 1e-9*scale (API), print precision 5e-6 rel / 1e-6 abs (report)'
RULE = ('Per axis: start in {0,0.1,-0.3,1,0.7,1000} x step in {1,0.1,0.05,0.3,1/3,1e-3,7.3,-0.1,-0.5,0} x count in the '
        'count set (quick: 1..12,17,33,64,100; thorough: 1..100), other axes count 1; all 2- and 3-axis combinations '
        'for counts <=4 from a reduced menu (ordering); same menus for theta and phi of the far field. Each grid is '
        'requested through the API on a 1-pulse model and (reduced set) through main() with the report parsed. '
        'Oracle: N = product of counts, point i = start + i*step, X fastest then Y then Z (near field), zenith '
        'fastest then azimuth (far field). State = (axis, start, step, count); transition = one field request. '
        'Non-trivial: count >= 2.')
ASSUMPTIONS = ['documented order taken from the original program / golden reports: X fastest, then Y, then Z; per azimuth all zenith angles']

STARTS = [0., 0.1, -0.3, 1., 0.7, 1000.]
STEPS = [1., 0.1, 0.05, 0.3, 1. / 3, 1e-3, 7.3, -0.1, -0.5, 0.0]
WIRE = ['-f', '10', '-w', '2,-5000,-5000,-5000,-5000,-5000,-4990,0.001', '--excitation-pulse=1']


def counts(tier):
    # beyond 100 (the statement's range) a few counts around powers of two: batching of points must not lose a tail
    return (list(range(1, 13)) + [17, 33, 64, 100] if tier == 'quick' else list(range(1, 101))) + [127, 128, 129, 200, 257]


def bounds(tier, seed):
    return dict(counts=counts(tier), starts=STARTS, steps=STEPS)


def cases(tier, seed):
    cs = counts(tier)
    for axis in range(3):
        for s in STARTS:
            for st in STEPS:
                yield dict(kind='nf1', axis=axis, start=s, step=st, counts=cs)
    for s, st in itertools.product([0.1, -0.3, 1.], [0.1, 1. / 3, -0.5]):
        for n in list(itertools.product((1, 2, 3, 4), repeat=3)) + [(5, 5, 6), (7, 7, 7), (16, 8, 1), (13, 1, 10)]:
            if sum(1 for x in n if x > 1) >= 2:
                yield dict(kind='nf3', start=s, step=st, n=list(n))
    for ang in ('theta', 'phi'):
        for s in STARTS:
            for st in STEPS:
                yield dict(kind='ff1', ang=ang, start=s, step=st, counts=cs)
    for s, st in itertools.product([0.1, -0.3, 1.], [0.1, 1. / 3, -0.5]):
        for n in itertools.product((1, 2, 3, 4), repeat=2):
            yield dict(kind='ff2', start=s, step=st, n=list(n))
    # three-axis grids and two-angle tables through the command line: order of the printed blocks / rows
    for s, st in itertools.product([0.1, -0.3], [0.1, 1. / 3, -0.5]):
        for n in ((2, 3, 2), (3, 1, 2), (1, 2, 3), (2, 2, 1), (4, 3, 2), (5, 5, 6), (7, 7, 7)):
            if max(n) > 4 and (s, st) != (0.1, 0.1):
                continue
            yield dict(kind='cli3', start=s, step=st, n=list(n))
    # through the command line + report
    rc = [1, 2, 3, 4, 7, 10] if tier == 'quick' else [1, 2, 3, 4, 5, 7, 10, 13, 21, 30]
    for s in STARTS[:5]:
        for st in STEPS:
            yield dict(kind='cli', start=s, step=st, counts=rc)


_M = None


def model():
    global _M
    if _M is None:
        m, diag = cli.build_main(WIRE)
        assert m is not None, diag
        m.compute()
        _M = m
    return _M


def expect_nf(start, inc, n):
    pts = []
    for k in range(n[2]):
        for j in range(n[1]):
            for i in range(n[0]):
                pts.append((start[0] + i * inc[0], start[1] + j * inc[1], start[2] + k * inc[2]))
    return np.array(pts).reshape(-1, 3)


def check_nf(m, start, inc, n, viol, tag):
    m.compute_near_field(list(start), list(inc), list(n))
    exp = expect_nf(start, inc, n)
    got = np.array(m.near_field_coord).T
    ne, nh = len(m.e_field), len(m.h_field)
    if got.shape[0] != exp.shape[0] or ne != exp.shape[0] or nh != exp.shape[0]:
        viol.append(('NF-COUNT', '%s start=%s inc=%s n=%s: %d coordinates / %d E / %d H points, expected %d'
                     % (tag, start, inc, n, got.shape[0], ne, nh, exp.shape[0])))
        return
    it = np.array(list(m.near_field_iter()))
    scale = max(1.0, np.abs(exp).max())
    if np.abs(got - exp).max() > 1e-9 * scale or np.abs(it - exp).max() > 1e-9 * scale:
        viol.append(('NF-COORD', '%s start=%s inc=%s n=%s: coordinates deviate by %g' % (tag, start, inc, n, np.abs(got - exp).max())))


_ANG = {}


def check_ff(m, th, ph, viol, tag):
    import mininec.mininec as mm
    # three of four requests re-use ONE pair of Angle objects with their attributes changed (a script scanning cuts),
    # consecutively; every fourth passes new objects
    _ANG['n'] = _ANG.get('n', 0) + 1
    if _ANG['n'] % 4 and 'z' in _ANG:
        za, aa = _ANG['z'], _ANG['a']
        za.initial, za.inc, za.number = th
        aa.initial, aa.inc, aa.number = ph
        tag += ' (same Angle objects, attributes changed)'
    else:
        za, aa = mm.Angle(*th), mm.Angle(*ph)
        _ANG.setdefault('z', za)
        _ANG.setdefault('a', aa)
    m.compute_far_field(za, aa)
    ff = m.far_field
    zen = np.array(ff.zen).flatten()
    azi = np.array(ff.azi).flatten()
    ez, ea = [], []
    for j in range(ph[2]):
        for i in range(th[2]):
            ez.append(th[0] + i * th[1])
            ea.append(ph[0] + j * ph[1])
    ez, ea = np.array(ez), np.array(ea)
    g = np.array(ff.gain)
    if len(zen) != len(ez) or g.shape[0] * g.shape[1] != len(ez) or np.array(ff.e_theta).size != len(ez):
        viol.append(('FF-COUNT', '%s theta=%s phi=%s: %d rows expected %d' % (tag, th, ph, len(zen), len(ez))))
        return
    scale = max(1.0, np.abs(ez).max(), np.abs(ea).max())
    if max(np.abs(zen - ez).max(), np.abs(azi - ea).max()) > 1e-9 * scale:
        viol.append(('FF-ANGLE', '%s theta=%s phi=%s: angles deviate' % (tag, th, ph)))


def close_print(a, b):
    return abs(a - b) <= 5e-6 * abs(b) + 1e-6


def evaluate(c):
    viol, canon, nontriv, ev = [], [], [], 0
    _ANG.clear()        # the re-used Angle pair lives for one case: a case replays identically on its own
    k = c['kind']
    if k == 'nf1':
        m = model()
        for n in c['counts']:
            start, inc, nn = [2.5, -1.5, 3.5], [1., 1., 1.], [1, 1, 1]
            start[c['axis']], inc[c['axis']], nn[c['axis']] = c['start'], c['step'], n
            check_nf(m, start, inc, nn, viol, 'axis %s' % 'XYZ'[c['axis']])
            canon.append('nf|%d|%r|%r|%d' % (c['axis'], c['start'], c['step'], n))
            nontriv.append(n >= 2)
            ev += 1
    elif k == 'nf3':
        m = model()
        start = [c['start'], c['start'] + 0.25, c['start'] - 0.5]
        inc = [c['step'], -c['step'], c['step'] * 2]
        check_nf(m, start, inc, c['n'], viol, '3-axis')
        canon.append('nf3|%r|%r|%s' % (c['start'], c['step'], c['n']))
        nontriv.append(True)
        ev += 1
    elif k == 'ff1':
        m = model()
        for n in c['counts']:
            th, ph = (10., 5., 1), (20., 7., 1)
            if c['ang'] == 'theta':
                th = (c['start'], c['step'], n)
            else:
                ph = (c['start'], c['step'], n)
            check_ff(m, th, ph, viol, c['ang'])
            canon.append('ff|%s|%r|%r|%d' % (c['ang'], c['start'], c['step'], n))
            nontriv.append(n >= 2)
            ev += 1
    elif k == 'ff2':
        m = model()
        th = (c['start'], c['step'], c['n'][0])
        ph = (c['start'] + 3, -2 * c['step'], c['n'][1])
        check_ff(m, th, ph, viol, '2-angle')
        canon.append('ff2|%r|%r|%s' % (c['start'], c['step'], c['n']))
        nontriv.append(True)
        ev += 1
    elif k == 'cli':
        for n in c['counts']:
            # near field along Y through the command line, far field theta
            nfarg = '--near-field=2.5,%r,3.5,1,%r,1,1,%d,1' % (c['start'], c['step'], n)
            kind, r, out, err = cli.run_main(WIRE + [nfarg, '--option=near-field', '--option=far-field',
                                                     '--theta=%r,%r,%d' % (c['start'], c['step'], n), '--phi=20,7,2'])
            ev += 1
            canon.append('cli|%r|%r|%d' % (c['start'], c['step'], n))
            nontriv.append(n >= 2)
            if kind != 'ret' or r is not None:
                viol.append(('CLI-FAIL', 'main returned %s %s: %s' % (kind, r, (out + err)[-200:])))
                continue
            blocks = report.parse_near(out)
            for fk in ('E', 'H'):
                pts = [b['point'] for b in blocks if b['kind'] == fk]
                if len(pts) != n:
                    viol.append(('NF-REPORT-COUNT', '%s blocks: %d, expected %d for start=%r step=%r' % (fk, len(pts), n, c['start'], c['step'])))
                    continue
                for i, p in enumerate(pts):
                    e = (2.5, c['start'] + i * c['step'], 3.5)
                    if not all(close_print(a, b) for a, b in zip(p, e)):
                        viol.append(('NF-REPORT-COORD', 'point %d printed %s expected %s' % (i, p, e)))
                        break
            rows = report.parse_far_db(out)
            if len(rows) != 2 * n:
                viol.append(('FF-REPORT-COUNT', '%d pattern rows, expected %d' % (len(rows), 2 * n)))
            else:
                i = 0
                for j in range(2):
                    for t in range(n):
                        e = (c['start'] + t * c['step'], 20 + 7 * j)
                        if not (close_print(rows[i][0], e[0]) and close_print(rows[i][1], e[1])):
                            viol.append(('FF-REPORT-ANGLE', 'row %d printed %s expected %s' % (i, rows[i][:2], e)))
                        i += 1
    elif k == 'cli3':
        start = [c['start'], c['start'] + 0.25, c['start'] - 0.5]
        inc = [c['step'], -c['step'], c['step'] * 2]
        n = c['n']
        th, ph = (c['start'] * 10 + 40, c['step'] * 20, n[0]), (c['start'] * 100, -c['step'] * 30, n[1] + 1)
        kind, r, out, err = cli.run_main(WIRE + ['--near-field=' + ','.join(repr(x) for x in start + inc) + ',%d,%d,%d' % tuple(n), '--option=near-field',
                                                 '--option=far-field', '--option=far-field-absolute', '--theta=%r,%r,%d' % th, '--phi=%r,%r,%d' % ph])
        ev += 1
        canon.append('cli3|%r|%r|%s' % (c['start'], c['step'], n))
        nontriv.append(True)
        if kind != 'ret' or r is not None:
            viol.append(('CLI-FAIL', 'main returned %s %s: %s' % (kind, r, (out + err)[-200:])))
        else:
            exp = expect_nf(start, inc, n)
            blocks = report.parse_near(out)
            for fk in ('E', 'H'):
                pts = [b['point'] for b in blocks if b['kind'] == fk]
                if len(pts) != len(exp):
                    viol.append(('NF-REPORT-COUNT', '%s blocks: %d, expected %d for n=%s' % (fk, len(pts), len(exp), n)))
                    continue
                for i, (p_, e) in enumerate(zip(pts, exp)):
                    if not all(close_print(a, b) for a, b in zip(p_, e)):
                        viol.append(('NF-REPORT-ORDER', '%s point %d printed %s expected %s (X fastest, then Y, then Z) for n=%s' % (fk, i, p_, tuple(e), n)))
                        break
            for nm, rows in (('dBi', report.parse_far_db(out)), ('V/m', report.parse_far_abs(out))):
                want = [(th[0] + i * th[1], ph[0] + j * ph[1]) for j in range(ph[2]) for i in range(th[2])]
                if len(rows) != len(want):
                    viol.append(('FF-REPORT-COUNT', '%s table: %d rows, expected %d' % (nm, len(rows), len(want))))
                    continue
                # the V/m table prints its angle columns with two decimals
                cp = close_print if nm == 'dBi' else (lambda a, b: abs(a - b) <= 0.00501)
                for i, (rw, e) in enumerate(zip(rows, want)):
                    if not (cp(rw[0], e[0]) and cp(rw[1], e[1])):
                        viol.append(('FF-REPORT-ANGLE', '%s table row %d printed %s expected %s' % (nm, i, tuple(rw[:2]), e)))
                        break
    return dict(viol=viol[:6], canon=canon, nontriv=nontriv, trans=ev, traces=ev, evals=ev, outcome=k, dev=0.0)
