"""C15 Option file written for a model reproduces that model when read back."""
import itertools, shlex
import numpy as np
from mcx import cli

PID = 'C15'
CHUNK = 4
TOLERANCE = 'segment ends 1e-9 of the size; radii, load impedances, voltages, media constants 1e-5 (printed precision); feed impedance 1e-4'
RULE = ('Deviation-bounded exploration from 4 valid base command lines (wire dipole; arc + helix + wire with tags and '
        'per-tag transformations; grounded wires over two media with radials; loaded three-wire structure): the base, '
        'every single deviation and (thorough) every pair of deviations from a menu of ~60 that covers explicit '
        'non-consecutive / permuted / mixed tags, every taper form on a tagged wire, tagged and untagged rotate / '
        'translate / scale, complex and negative source voltages, per-object sources, every load kind with inductive and '
        'capacitive values, every attachment form on one and several objects, every media form. Command lines the '
        'program rejects (return 23 / usage error) are outside the quantifier and counted as skipped. Oracle: the '
        'written option list is accepted, the re-read model equals the original (objects, tags, segment ends, radii, '
        'taper, sources, load impedance per pulse, media), same feed impedance, write(read(write(m))) == write(m) as a set '
        'of options. State = accepted argument list; transition = write + re-read. Non-trivial: at least one deviation.')
ASSUMPTIONS = ['the option file is read back by splitting it into shell words (one option per line, as written)']

BASES = {
    'dipole': ['-f', '14.2', '-w', '6,0,0,0,0,0,5,.002', '-w', '4,0,0,5,1,2,6,.001', '--excitation-pulse=3'],
    'mixed': ['-f', '14.2', '-a', '5,5,1,0,120,.002', '--helix=2,8,1,0.5,.002,.3,.25,.2,.15', '-w', '9,3,-0.5,0,0.8660254037844387,-1.5,0.5,1.6,.002',
              '--geo-translate=1.01,0,0,3,2', '--geo-rotate=1.02,0,0,40,2', '--excitation-pulse=2,5'],
    'ground': ['-f', '7.1', '-w', '4,0,0,0,0.5,0.5,3,.002', '-w', '4,0.5,0.5,3,3,1,4,.002', '--medium=13,0.005,0,5', '--medium=3,0.001,-1',
               '--radial-count=8', '--radial-radius=0.001', '--excitation-pulse=1'],
    'arcgnd': ['-f', '14.2', '-a', '6,1.5,0,180,.002', '-w', '3,0.3,0.5,1.8,1.3,2,2.3,.002', '--medium=0,0,0', '--excitation-pulse=1'],
    # junctions typed with different rounding (joined by the 1e-3 segment tolerance, not by identical coordinates):
    # second end of wire 2 on the end of wire 1, first end of wire 3 on the start of wire 1. The offsets are 1e-10 m: the solver does
    # not consolidate the coordinates of fuzzily joined ends and its feed impedance moves by ~500 x offset/m (4.7e-3 at 1e-5 m,
    # still inside the matching tolerance) - with 1e-10 that stays below the read-back tolerance of C18
    'fuzzy': ['-f', '300', '-w', '10,0,0,0,0.333333,0,0,.001', '-w', '10,0.3333330001,0,0.333333,0.3333330001,0,0,.001', '-w', '6,1e-10,0,0,0,0.2,0.1,.001',
              '--excitation-pulse=9'],
    # wires with the smallest segment counts (2, 3 and 1 segments): a two-segment taper from one end is l/3 + 2l/3
    'short': ['-f', '21.3', '-w', '2,0,0,1,0.5,0.8,2,0.001', '-w', '3,0.5,0.8,2,2,0.5,2.6,0.002', '-w', '1,2,0.5,2.6,2.3,1.2,2.3,0.001',
              '--excitation-pulse=1'],
    'loaded': ['-f', '21.3', '-w', '4,0,0,1,0.5,0.8,2,0.001', '-w', '5,0.5,0.8,2,2,0.5,2.6,0.002', '-w', '3,2,0.5,2.6,2.5,2,2,0.001',
               '--excitation-pulse=2', '--load=10+5j', '--attach-load=1,4'],
}


def wires_tagged(argv, tags):
    """rewrite the -w options with explicit tags (None = automatic)"""
    out, k = [], 0
    it = iter(range(len(argv)))
    i = 0
    while i < len(argv):
        if argv[i] == '-w':
            v = argv[i + 1].split(',')
            if len(v) == 9:
                v = v[1:]
            t = tags[k] if k < len(tags) else None
            k += 1
            out += ['-w', ','.join(([str(t)] if t is not None else []) + v)]
            i += 2
        else:
            out.append(argv[i])
            i += 1
    return out


def drop(argv, prefix):
    return [a for a in argv if not a.startswith(prefix)]


def menu():
    M = []
    add = lambda name, f: M.append((name, f))
    for tags in ((1, 2, 3), (7, 3, None), (3, 1, 2), (None, 5, None), (10, 20, 30), (2, None, 1)):
        add('tags%s' % (tags,), lambda a, t=tags: wires_tagged(a, t))
    for form in ('1,1', '1,2', '1,3', '2,1,0.05', '1,1,0.05,0.9', '2,3,0,0.5', '3,2', '7,1', '20,2,0.02', '9,1', '9,3,0.01'):
        add('taper=' + form, lambda a, f=form: a + ['--taper-wire=' + f])
    for v in ('1,10,20,30', '2,0,0,90,1', '1,0,45,0,2', '0.5,5,5,5,7', '3,90,0,0,3', '3,0,0,33,9'):
        add('rotate=' + v, lambda a, v=v: a + ['--geo-rotate=' + v])
    for v in ('1,0.5,-1,2', '2,0,0,1,2', '1.5,3,0,0,1', '4,0,0,0.5,7'):
        add('translate=' + v, lambda a, v=v: a + ['--geo-translate=' + v])
    for v in ('0.5', '2,2', '1.7,1', '10,7', '0.3048'):
        add('scale=' + v, lambda a, v=v: a + ['--geo-scale=' + v])
    # repeated options: two scales (global, per tag then global, same tag twice), two motions with the same key
    for name, opts in (('scale2', ['--geo-scale=4', '--geo-scale=0.125']), ('scale-tag-global', ['--geo-scale=1.25,2', '--geo-scale=0.0254']),
                       ('scale-tag-twice', ['--geo-scale=2,1', '--geo-scale=0.5,1']),       # net factor 1: the structure stays what it is
                       ('samekey', ['--geo-rotate=1,0,0,30', '--geo-translate=1,0.5,0,0.25']), ('samekey-rev', ['--geo-translate=1,0.5,0,0.25', '--geo-rotate=1,0,0,30']),
                       ('rotate-twice-tag', ['--geo-rotate=2,0,0,45,2', '--geo-rotate=1,10,0,0,2', '--geo-translate=3,0,0,1'])):
        add(name, lambda a, opts=opts: a + opts)
    for v in ('2+3j', '-1', '0.5-0.25j', '-0.001j', '1e3', '1e-3+1e-3j'):
        add('volt=' + v, lambda a, v=v: a + ['--excitation-voltage=' + v])
    for v in ('1,2', '2,1', '1,3', '3,2', '1,7', '2'):
        add('src=' + v, lambda a, v=v: drop(a, '--excitation-pulse') + ['--excitation-pulse=' + v])
    add('2src', lambda a: drop(a, '--excitation-pulse') + ['--excitation-pulse=1', '--excitation-voltage=1', '--excitation-pulse=2,2', '--excitation-voltage=0.5-2j'])
    for v in ('50', '5-3j', '-4j', '0.001+1000j', '1e-3-1e3j', '75+0j', '12.34567-0.7654321j'):
        add('load=' + v, lambda a, v=v: drop(drop(a, '--load'), '--attach-load') + ['--load=' + v, '--attach-load=1,2'])
    for v in ('5,1e-6,', '5,,30e-12', ',2e-6,30e-12', '0.5,1e-7,1e-9', '1000,,', '5.123456,1.234567e-6,', '0.1234567,,3.456789e-11', '0,6e-05,1e-10', '5,0,1e-10', '5,1e-6,0'):      # many digits, no L-C cancellation
        add('rlc=' + v, lambda a, v=v: a + ['--rlc-load=' + v, '--attach-load=%d,1' % (2 if any(x.startswith('--load') for x in a) else 1)])
    for v in ('2,1e-6,50e-12', '0.1,5e-6,1e-10', '234.5678,1.234567e-6,5.678901e-11'):
        add('trap=' + v, lambda a, v=v: a + ['--trap-load=' + v, '--attach-load=%d,3' % (2 if any(x.startswith('--load') for x in a) else 1)])
    for va, vb in (('1,2e-9', '10,3e-6'), ('0,-2.193644e-9', '1,0'), ('1', '0,225.998e-9'), ('1,2e-9,1e-18', '3,1e-7')):
        add('laplace=%s/%s' % (va, vb), lambda a, va=va, vb=vb: a + ['--laplace-load-a=' + va, '--laplace-load-b=' + vb,
                                                                     '--attach-load=%d,2' % (2 if any(x.startswith('--load') for x in a) else 1)])
    for att in ('1,all', '1,all,1', '1,all,2', '1,2,2', '1,1,1', '1,all,7', '1,all,9', '1,2,5'):
        add('attach=' + att, lambda a, att=att: drop(drop(a, '--load'), '--attach-load') + ['--load=7+2j', '--attach-load=' + att])
    # one load attached to the same pulse more than once (documented: acts as a series connection)
    add('attach-twice', lambda a: drop(drop(a, '--load'), '--attach-load') + ['--load=7+2j', '--attach-load=1,2', '--attach-load=1,2', '--attach-load=1,3'])
    add('attach-all+again', lambda a: drop(drop(a, '--load'), '--attach-load') + ['--load=7+2j', '--attach-load=1,all,1', '--attach-load=1,2,1'])
    add('rlc-attached-first', lambda a: drop(drop(a, '--load'), '--attach-load') + ['--load=7+2j', '--rlc-load=5,1e-6,', '--attach-load=2,1', '--attach-load=1,3'])
    add('laplace-trap-impedance-order', lambda a: drop(drop(a, '--load'), '--attach-load') + ['--load=7+2j', '--trap-load=2,1e-6,50e-12', '--laplace-load-a=1,2e-9', '--laplace-load-b=10,3e-6',
                                                                                           '--attach-load=3,1', '--attach-load=2,2', '--attach-load=1,3'])
    # all pulses of an object except its first (junction / ground) pulse, given one by one
    for tag, ks in ((2, (2, 3, 4)), (1, (2, 3, 4)), (2, (2, 3, 4, 5)), (1, (1, 2, 3)), (3, (2, 3))):
        add('attach-all-but-first,tag%d,%s' % (tag, ks),
            lambda a, tag=tag, ks=ks: drop(drop(a, '--load'), '--attach-load') + ['--load=20-150j'] + ['--attach-load=1,%d,%d' % (k, tag) for k in ks])
    add('attach2obj', lambda a: drop(drop(a, '--load'), '--attach-load') + ['--load=7-2j', '--attach-load=1,all,1', '--attach-load=1,all,2'])
    add('attach-mixed', lambda a: drop(drop(a, '--load'), '--attach-load') + ['--load=7-2j', '--attach-load=1,all,2', '--attach-load=1,1,1', '--load=3', '--attach-load=2,2'])
    for v in ('1e6', '5.8e7,1', '3e5,2', '1e5,7', '3.456789e6'):
        add('skinc=' + v, lambda a, v=v: a + ['--skin-effect-conductivity=' + v])
    for v in ('1e-6', '2e-5,2'):
        add('skinr=' + v, lambda a, v=v: a + ['--skin-effect-resistivity=' + v])
    # (no many-digit sleeve: its load goes with log(b/a), which amplifies the 6 printed digits without bound as b -> a)
    for v in ('0.004,2.3', '0.003,4,1', '0.01,1,2'):
        add('insul=' + v, lambda a, v=v: a + ['--insulation-load=' + v])
    for name, ms in (('ideal', ['--medium=0,0,0']), ('1real', ['--medium=13,0.005,0']),
                     ('2lin0', ['--medium=13,0.005,0,0', '--medium=3,0.001,-1', '--boundary=linear']),
                     ('1real-circ', ['--medium=13,0.005,0', '--boundary=circular']), ('1real-lin', ['--medium=13,0.005,0', '--boundary=linear']),
                     ('ideal-circ', ['--medium=0,0,0', '--boundary=circular']),
                     ('3lin', ['--medium=13,0.005,0,5', '--medium=80,4,-1,20', '--medium=3,0.001,0', '--boundary=linear']),
                     ('4circ-rad', ['--medium=13,0.005,0,5', '--medium=80,4,-1,20', '--medium=3,0.001,-2.5,40', '--medium=5,0.002,-1', '--radial-count=16', '--radial-radius=0.001']),
                     ('2lin', ['--medium=13,0.005,0,5', '--medium=3,0.001,-1', '--boundary=linear']),
                     ('3circ', ['--medium=13,0.005,0,5', '--medium=80,4,-1,20', '--medium=3,0.001,-2.5', '--boundary=circular']),
                     ('rad', ['--medium=13,0.005,0,8', '--medium=3,0.001,0', '--radial-count=120', '--radial-radius=0.0005'])):
        add('media=' + name, lambda a, ms=ms: drop(drop(drop(drop(a, '--medium'), '--radial'), '--boundary'), '--XX') + ms)
    return M


MENU = menu()
BY_NAME = dict(MENU)
assert len(BY_NAME) == len(MENU), 'menu names must be unique'


def entry(d):
    """menu entry by name (cases carry names so that stored replays survive menu changes) or by index"""
    return (d, BY_NAME[d]) if isinstance(d, str) else MENU[d]


RULE = RULE + " Base 'short' has wires of 2, 3 and 1 segments; RLC values include explicit zeros."


def bounds(tier, seed):
    return dict(bases=list(BASES), menu=len(MENU), deviations=1 if tier == 'quick' else 2)


def cases(tier, seed):
    for b in BASES:
        yield dict(base=b, devs=[])
        for i in range(len(MENU)):
            yield dict(base=b, devs=[MENU[i][0]])
        if tier == 'thorough':
            for i, j in itertools.combinations(range(len(MENU)), 2):
                yield dict(base=b, devs=[MENU[i][0], MENU[j][0]])


def describe(m):
    """canonical description of a live model"""
    d = {}
    d['geo'] = []
    for g in m.geo:
        ends = np.array([[s.p1, s.p2] for s in g.segments], float)
        d['geo'].append(dict(cls=type(g).__name__, tag=g.tag, n=g.n_segments, ends=ends, r=g.r, r_orig=g.r_orig,
                             taper=(getattr(g, 'segtype', None), getattr(g, 'taper_min', None), getattr(g, 'taper_max', None))))
    d['src'] = [(s.idx, complex(s.voltage)) for s in m.sources]
    lp = {}
    kinds = []
    for ld in m.loads:
        kinds.append(type(ld).__name__)
        for p in ld.pulses:
            lp[p.idx] = lp.get(p.idx, 0j) + ld.impedance(m.f, p)
    d['loads'] = lp
    d['kinds'] = sorted(kinds)
    d['media'] = None if m.media is None else [(x.permittivity, x.conductivity, x.height, x.coord if x.next else None, x.nradials, x.radius, x.boundary if len(m.media) > 1 else None) for x in m.media]
    d['f'] = m.f
    return d


def close(a, b, rel=1e-5):
    return abs(a - b) <= rel * max(abs(a), abs(b)) + 1e-300


def compare(d1, d2):
    out = []
    if len(d1['geo']) != len(d2['geo']):
        return [('OBJECTS', '%d objects written, %d read back' % (len(d1['geo']), len(d2['geo'])))]
    for i, (a, b) in enumerate(zip(d1['geo'], d2['geo'])):
        if a['cls'] != b['cls'] or a['tag'] != b['tag'] or a['n'] != b['n']:
            out.append(('OBJECT', 'object %d: %s tag %s n=%d read back as %s tag %s n=%d' % (i, a['cls'], a['tag'], a['n'], b['cls'], b['tag'], b['n'])))
            continue
        size = max(1.0, np.abs(a['ends']).max())
        dv = np.abs(a['ends'] - b['ends']).max() if a['ends'].shape == b['ends'].shape else float('inf')
        if dv > 1e-9 * size:
            kind = 'taper' if a['taper'][0] else a['cls']
            out.append(('GEOMETRY-' + kind, 'object %d (tag %s): segment ends differ by %.3g after the round trip (taper %s -> %s)' % (i, a['tag'], dv, a['taper'], b['taper'])))
        # r is the equivalent radius: with an insulation load it depends on the sleeve radius and permittivity, printed with 6 digits
        if not close(a['r'], b['r'], 1e-5) or not close(a['r_orig'], b['r_orig'], 1e-9):
            out.append(('RADIUS', 'object %d: radius %g -> %g' % (i, a['r'], b['r'])))
    if len(d1['src']) != len(d2['src']) or any(x[0] != y[0] or not close(x[1], y[1]) for x, y in zip(d1['src'], d2['src'])):
        out.append(('SOURCES', 'sources %s read back as %s' % (d1['src'], d2['src'])))
    if set(d1['loads']) != set(d2['loads']):
        out.append(('LOAD-PULSES', 'loaded pulses %s read back as %s' % (sorted(d1['loads']), sorted(d2['loads']))))
    else:
        for p in d1['loads']:
            if not close(d1['loads'][p], d2['loads'][p]):
                out.append(('LOAD-VALUE', 'load on pulse %d: %s read back as %s' % (p + 1, d1['loads'][p], d2['loads'][p])))
                break
    if d1['kinds'] != d2['kinds']:
        out.append(('LOAD-KINDS', 'load kinds %s read back as %s' % (d1['kinds'], d2['kinds'])))
    if (d1['media'] is None) != (d2['media'] is None) or (d1['media'] and (len(d1['media']) != len(d2['media']) or any(
            not all((x == y) if not isinstance(x, float) or x is None or y is None else close(x, y) for x, y in zip(ma, mb)) for ma, mb in zip(d1['media'], d2['media'])))):
        out.append(('MEDIA', 'media %s read back as %s' % (d1['media'], d2['media'])))
    if not close(d1['f'], d2['f'], 1e-7):
        out.append(('FREQUENCY', '%r -> %r' % (d1['f'], d2['f'])))
    return out


def evaluate(c):
    import mininec.mininec as mm
    argv = list(BASES[c['base']])
    names = []
    for i in c['devs']:
        name, f = entry(i)
        argv = f(argv)
        names.append(name)
    label = '%s + %s' % (c['base'], names)
    m1, diag = cli.build_main(argv)
    if m1 is None:
        return dict(viol=[], skipped='not-accepted' if not diag.startswith('exc:') else 'not-accepted(uncaught exception, see C20)', evals=1, outcome='rejected')
    viol = []
    zen, azi = mm.Angle(0, 30, 4), mm.Angle(0, 90, 3)
    try:
        text1 = m1.as_cmdline(azi=azi, zen=zen)
    except Exception as e:
        return dict(viol=[('WRITE-CRASH:%s' % type(e).__name__, '%s: as_cmdline raises %r' % (label, e))])
    argv2 = shlex.split(text1)
    m2, diag2 = cli.build_main(argv2)
    if m2 is None:
        opt = ''
        for l in text1.split('\n'):
            if l.strip():
                mm_, dd = cli.build_main(shlex.split('\n'.join(x for x in text1.split('\n') if x != l)))
                if mm_ is not None:
                    opt = l
                    break
        sig = opt.split('=')[0].split(' ')[0] if opt else '?'
        return dict(viol=[('NOT-ACCEPTED:%s' % sig, '%s: the written option list is rejected (%s); offending line %r' % (label, diag2[:120], opt))],
                    canon=label, outcome='reread-rejected')
    d1, d2 = describe(m1), describe(m2)
    for sig, msg in compare(d1, d2):
        viol.append((sig, '%s: %s' % (label, msg)))
    if not viol:
        try:
            m1.compute()
            m2.compute()
            z1 = np.array([s.impedance for s in m1.sources])
            z2 = np.array([s.impedance for s in m2.sources])
            # parameters are printed with 6 digits (5e-7); the feed impedance may amplify that by its sensitivity: 1e-4
            if np.max(np.abs(z1 - z2) / np.abs(z1)) > 1e-4:
                viol.append(('FEED-Z', '%s: feed impedance %s read back as %s' % (label, z1, z2)))
        except np.linalg.LinAlgError:
            pass
    # the same through the per-object form of the load attachments
    if m1.loads:
        text3 = m1.as_cmdline(azi=azi, zen=zen, load_by_geo=True)
        m3, diag3 = cli.build_main(shlex.split(text3))
        if m3 is None:
            viol.append(('NOT-ACCEPTED-by-geo', '%s: option list with per-object load attachments is rejected (%s)' % (label, diag3[:100])))
        else:
            for sig, msg in compare(d1, describe(m3)):
                viol.append((sig + '-by-geo', '%s: %s' % (label, msg)))
    text2 = m2.as_cmdline(azi=azi, zen=zen)
    s1, s2 = set(l for l in text1.split('\n') if l.strip()), set(l for l in text2.split('\n') if l.strip())
    if s1 != s2:
        viol.append(('REWRITE', '%s: write(read(write(m))) differs: only in first %s, only in second %s' % (label, sorted(s1 - s2)[:3], sorted(s2 - s1)[:3])))
    if not c['devs']:
        # the file main() writes for --output-cmdline is the same option list; the run options the writer can add
        # (field requests, power levels, distance, report options) are accepted as written
        import tempfile, os
        fd, path = tempfile.mkstemp(suffix='.opts')
        os.close(fd)
        try:
            kind, r, out, err = cli.run_main(argv + ['--output-cmdline=' + path, '--theta=0,30,4', '--phi=0,90,3'])
            ftxt = open(path).read()
        finally:
            os.unlink(path)
        if kind != 'ret' or r is not None:
            viol.append(('OUTPUT-CMDLINE', '%s: main() with --output-cmdline ends with %s %s' % (label, kind, r)))
        elif set(l for l in ftxt.split('\n') if l.strip()) != s1:
            viol.append(('OUTPUT-CMDLINE', '%s: file written by main() differs from as_cmdline(): %s' % (label, sorted(set(ftxt.split('\n')) ^ s1)[:3])))
        try:
            text4 = m1.as_cmdline(azi=azi, zen=zen, near=[1., 2., 3., 0.5, 0.5, 0.5, 2, 1, 2], pwr_nf=10., pwr_ff=100., ff_dist=1000.,
                                  opt=('far-field', 'far-field-absolute', 'near-field'))
            kind, r, out, err = cli.run_main(shlex.split(text4))
            if kind != 'ret' or r is not None:
                viol.append(('RUN-OPTIONS', '%s: option list with run options is not accepted: %s %s %s' % (label, kind, r, err[-100:])))
            else:
                from mcx.ref import report
                ne = len([b for b in report.parse_near(out) if b['kind'] == 'E'])
                nf = len(report.parse_far_db(out))
                if ne != 4 or nf != 12 or 'PATTERN DATA' not in out:
                    viol.append(('RUN-OPTIONS', '%s: report from the written run options has %d near-field points and %d pattern rows (4 / 12 requested)' % (label, ne, nf)))
        except Exception as e:
            viol.append(('RUN-OPTIONS', '%s: %r' % (label, e)))
    return dict(viol=viol[:6], canon=label, nontriv=bool(c['devs']), trans=2, traces=1, evals=2, dev=0.0, outcome='roundtrip')
