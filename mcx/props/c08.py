"""C08 Loads act as the series circuit elements they describe."""
import itertools, math
import numpy as np
from mcx import geom
from mcx.ref import circuit

PID = 'C08'
CHUNK = 1
TOLERANCE = 'lumped Z(f) 1e-9 of the element magnitudes; distributed per-length 1e-6; Z_in shift 1e-8 |Z|; neutral loads 1e-9'
RULE = ('(a) impedance(f) of series RLC, trap and Laplace loads on the full product f (13 log-spaced 0.1..1000 MHz) x '
        'R {0,1e-3,1,1e3,1e6} x L {0,1e-9..1e-3} x C {0,1e-15..1e-3} and 40 Laplace coefficient vectors of degree <=3, '
        'against exact rational arithmetic. (b) skin-effect internal impedance for sigma 1e3..1e9 x r 1e-5..1e-2 x f '
        '(|kr| below and above 110), conductivity vs 1/resistivity, insulation for b/a {1.01,2,10} x eps_r {1,2.3,80}, '
        'each times the conductor length a pulse represents on interior, junction (different radii, 1-segment wires, '
        'both wire orders) and grounded pulses. (c) in the solved system: lattice structures x feed on every pulse x '
        'load on the feed {one, two, three loads, zero load, all load kinds}, neutral loads (eps_r=1, sigma 1e20/1e30), '
        'the four attachment forms. State = (load kind, parameters) or (structure, feed, load set); transition = one '
        'impedance evaluation or one solve. Non-trivial: load is not zero / pulse is a junction or grounded pulse.')
ASSUMPTIONS = ['Kelvin-function form of the round-wire internal impedance and the documented large-argument asymptote at |kr| >= 110']

FREQ = [10 ** (-1 + 4 * i / 12.) for i in range(13)]
RS = [0., 1e-3, 1., 1e3, 1e6]
LS = [0., 1e-9, 1e-8, 1e-7, 1e-6, 1e-5, 1e-4, 1e-3]
CS = [0., 1e-15, 1e-14, 1e-13, 1e-12, 1e-11, 1e-10, 1e-9, 1e-8, 1e-7, 1e-6, 1e-5, 1e-4, 1e-3]


RULE = RULE + ' Load sets include one load object attached two and three times to the feed pulse.'


def bounds(tier, seed):
    return dict(freq=FREQ, R=RS, L=LS, C=CS, variant=geom.variant(seed))


def laplace_vectors():
    vals = [0., 1., -2.5, 3e-6, 4e-12]
    out = []
    for deg in (0, 1, 2, 3):
        k = 0
        for a in itertools.product(vals, repeat=deg + 1):
            for b in (tuple(reversed(a)), tuple(x * 2 + 1 for x in a)):
                k += 1
                if k % 17 == 1 and any(a):
                    out.append((list(a), list(b)))
    return out[:40]


def cases(tier, seed):
    for R in RS:
        yield dict(kind='rlc', R=R)
        yield dict(kind='trap', R=R)
    yield dict(kind='laplace')
    for sig in (1e3, 1e5, 5.8e7, 1e9):
        yield dict(kind='skin', sigma=sig)
    yield dict(kind='insul')
    # lumped loads written on the command line: every subset of R, L, C given / left empty / given as 0
    yield dict(kind='cli')
    # distributed loads on structures: pulse lengths
    rot, sc, f = geom.variant(seed)
    for order in (0, 1):
        for n1 in (1, 2, 4):
            for env in ('free', 'ideal'):
                for which in ('both', 'first', 'second'):
                    for flip2 in (0, 1):
                        yield dict(kind='dist', order=order, n1=n1, env=env, f=f, which=which, flip2=flip2)
    # in the system
    for ground, special in ((False, False), (True, False), (True, True)):
        P, f, lam = geom.lattice(seed, ground=ground, special=special)
        pts = [list(map(float, p)) for p in P]
        k = 0
        for es in geom.edge_sets(5, 3):
            nseg = [geom.auto_nseg(np.linalg.norm(P[a] - P[b]), 0.05 * lam) for a, b in es]
            for flip in (0, 1):
                st = [dict(a=(b if flip else a), b=(a if flip else b), n=nseg[i], r=2e-4 * lam) for i, (a, b) in enumerate(es)]
                case = dict(f=f, env='ideal' if ground else 'free', wires=[geom.wire(P[e['a']], P[e['b']], e['n'], e['r']) for e in st])
                if geom.domain(case, lam, ground=ground):
                    continue
                k += 1
                if tier == 'quick' and k % 5 != 1:
                    continue
                yield dict(kind='system', env=case['env'], f=f, lam=lam, pts=pts, st=st)
                if k % 10 == 1 or tier != 'quick':
                    # explicit tags that are neither 1..N nor in listing order (per-object attachment goes by tag)
                    yield dict(kind='system', env=case['env'], f=f, lam=lam, pts=pts, st=st, tags=[(7, 2, 5)[i] for i in range(len(st))])


def evaluate(c):
    import mininec.mininec as mm
    viol, canon, nontriv = [], [], []
    ev = 0
    worst, wn = 0.0, None

    def chk(sig, x, tol, msg):
        nonlocal worst, wn
        if tol > 0 and x / tol > worst:
            worst, wn = x / tol, sig
        if not (x <= tol):
            viol.append((sig, '%s (%.3g > %.3g)' % (msg, x, tol)))
    k = c['kind']
    if k in ('rlc', 'trap'):
        R = c['R']
        for L in LS:
            for C in CS:
                if k == 'trap' and (C == 0 or (R == 0 and L == 0)):
                    continue
                try:
                    ld = mm.Series_RLC_Load(R, L, C) if k == 'rlc' else mm.Trap_Load(R, L, C)
                except Exception as e:
                    viol.append(('CTOR-' + k, 'constructor failed for R=%g L=%g C=%g: %r' % (R, L, C, e)))
                    continue
                for f in FREQ:
                    ref, sc = circuit.series_rlc(f, R, L, C) if k == 'rlc' else circuit.trap(f, R, L, C)
                    ev += 1
                    if ref is None:
                        continue
                    with np.errstate(all='ignore'):
                        z = ld.impedance(f)
                    d = abs(z - ref) if np.isfinite(z) else float('inf')
                    chk(k.upper(), d, 1e-9 * sc + 1e-300, '%s R=%g L=%g C=%g at %.4g MHz: %s, circuit gives %s' % (k, R, L, C, f, z, ref))
                canon.append('%s|%g|%g|%g' % (k, R, L, C))
                nontriv.append(bool(R or L or C))
    elif k == 'laplace':
        for a, b in laplace_vectors():
            try:
                ld = mm.Laplace_Load(a=a, b=b)
            except ValueError:
                continue
            for f in FREQ:
                ref, sc = circuit.laplace(f, a, b)
                ev += 1
                if ref is None:
                    continue
                with np.errstate(all='ignore'):
                    z = ld.impedance(f)
                chk('LAPLACE', abs(z - ref), 1e-9 * sc + 1e-300, 'Laplace a=%s b=%s at %.4g MHz: %s, ratio of polynomials gives %s' % (a, b, f, z, ref))
            canon.append('lap|%s|%s' % (a, b))
            nontriv.append(True)
    elif k == 'skin':
        sig = c['sigma']
        for r in (1e-5, 1e-4, 1e-3, 1e-2):
            for f in FREQ:
                for form in ('cond', 'res'):
                    w = mm.Wire(4, 0, 0, 0, 0, 0, 2., r)
                    m = mm.Mininec(f, [w])
                    ld = mm.Skin_Effect_Load(w, conductivity=sig) if form == 'cond' else mm.Skin_Effect_Load(w, resistivity=1 / sig)
                    m.register_load(ld, None, w.tag)
                    p = m.pulses[1]
                    z = ld.impedance(f, p)
                    zl, q = circuit.skin_per_length(f, r, sig)
                    ref = zl * 0.5      # two half segments of 0.25 m
                    ev += 1
                    tol = 1e-6 if abs(q - 110) > 1 else 5e-3     # switch-over to the asymptote
                    chk('SKIN-%s' % ('lo' if q < 110 else 'hi'), abs(z - ref) / abs(ref), tol, 'skin effect sigma=%g r=%g f=%.4g (|kr|=%.3g, %s): %s per pulse, closed form %s' % (sig, r, f, q, form, z, ref))
                canon.append('skin|%g|%g' % (sig, r))
                nontriv.append(True)
        # unbounded conductivity is neutral
    elif k == 'insul':
        for a in (1e-4, 1e-3):
            for ba in (1.01, 2., 10.):
                for er in (1., 2.3, 80.):
                    for f in (0.1, 7., 300.):
                        w = mm.Wire(4, 0, 0, 0, 0, 0, 2., a)
                        m = mm.Mininec(f, [w])
                        ld = mm.Insulation_Load(w, a * ba, er)
                        m.register_load(ld, None, w.tag)
                        z = ld.impedance(f, m.pulses[1])
                        ref = circuit.insulation_per_length(f, a, a * ba, er) * 0.5
                        ev += 1
                        chk('INSULATION', abs(z - ref), 1e-9 * abs(ref) + 1e-300, 'insulation a=%g b/a=%g eps=%g f=%g: %s per pulse, closed form %s' % (a, ba, er, f, z, ref))
                        chk('EQUIV-RADIUS', abs(w.r - circuit.equivalent_radius(a, a * ba, er)) / a, 1e-12, 'equivalent radius')
                    canon.append('ins|%g|%g|%g' % (a, ba, er))
                    nontriv.append(er != 1.)
    elif k == 'dist':
        # two wires of different radius joined at a point; the first has n1 segments (1: no pulse of its own)
        f = c['f']
        lam = geom.C_MININEC / f
        A, B, C_ = np.array([0., 0., 0.1 * lam]), np.array([0.03, 0.04, 0.16]) * lam, np.array([0.15, 0.02, 0.2]) * lam
        if c['env'] == 'ideal':
            A = np.array([0., 0., 0.])
        w1 = dict(p1=A, p2=B, n=c['n1'], r=1e-4 * lam)
        w2 = dict(p1=B, p2=C_, n=4, r=3e-4 * lam)
        if c.get('flip2'):
            w2 = dict(p1=C_, p2=B, n=4, r=3e-4 * lam)
        ws = [w1, w2] if c['order'] == 0 else [w2, w1]
        for kind in ('skin', 'insul', 'both'):
            objs = [mm.Wire(w['n'], *w['p1'], *w['p2'], w['r']) for w in ws]
            m = mm.Mininec(f, objs, media=geom.media_from(c['env']))
            lds = []
            for o in objs:
                # which of the two wires carries the load (listing order 0 = w1 first)
                is_w1 = (o is objs[0]) == (c['order'] == 0)
                if (c.get('which') == 'first' and not is_w1) or (c.get('which') == 'second' and is_w1):
                    continue
                if kind in ('skin', 'both'):
                    ld = mm.Skin_Effect_Load(o, conductivity=3e6 if o is objs[0] else 5.8e7)
                    m.register_load(ld, None, o.tag)
                    lds.append(ld)
                if kind in ('insul', 'both'):
                    ld = mm.Insulation_Load(o, o.r_orig * (2.0 if o is objs[0] else 3.0), 2.3 if o is objs[0] else 4.0)
                    m.register_load(ld, None, o.tag)
                    lds.append(ld)
            m.fix_distributed_loads()
            # expected per pulse: sum over its two halves of per-length impedance of the wire the half lies on
            for p in m.pulses:
                exp = 0j
                for h in (0, 1):
                    if p.ground[h]:
                        continue          # the image half carries no conductor
                    g = p.geo[h]
                    Lh = np.linalg.norm(np.array(p.ends[h], float) - np.array(p.point, float)) / 2
                    if g.skin_load is not None:
                        exp += circuit.skin_per_length(f, g.r_orig, g.skin_load.conductivity)[0] * Lh
                    if g.coat_load is not None:
                        exp += circuit.insulation_per_length(f, g.r_orig, g.coat_load.radius, g.coat_load.epsilon_r) * Lh
                got = 0j
                nload = 0
                for ld in m.loads:
                    cnt = sum(1 for q in ld.pulses if q is p)
                    if cnt:
                        nload += cnt
                        # one call gives the whole pulse for a load class (both halves): count each class once
                for cls in (mm.Skin_Effect_Load, mm.Insulation_Load):
                    l_of = [ld for ld in m.loads if isinstance(ld, cls) and any(q is p for q in ld.pulses)]
                    tot = sum(ld.impedance(f, p) for ld in l_of for q in ld.pulses if q is p)
                    got += tot
                ev += 1
                # a grounded pulse: the statement counts the conductor length the pulse represents (real half)
                junction = p.geo[0] is not p.geo[1]
                chk('DIST-%s-%s' % (kind, 'junction' if junction else ('ground' if p.ground.any() else 'interior')),
                    abs(got - exp) / (abs(exp) if exp else 1.0), 1e-6,
                    'distributed load (%s) on pulse %d (%s, wires n=%d r=%.3g / n=%d r=%.3g, order %d): loads add %s, closed form x conductor length gives %s'
                    % (kind + '/' + str(c.get('which')), p.idx + 1, c['env'], ws[0]['n'], ws[0]['r'], ws[1]['n'], ws[1]['r'], c['order'], got, exp))
            canon.append('dist|%s|%d|%d|%s|%s|%d' % (kind, c['order'], c['n1'], c['env'], c.get('which'), c.get('flip2', 0)))
            nontriv.append(True)
    elif k == 'cli':
        from mcx import cli
        vals = dict(R='47', L='2e-06', C='2.2e-11')
        for f in (3.5, 14.2, 145.0):
            base = ['-f', repr(f), '-w', '10,0,0,0,0,0,10,0.001', '--excitation-pulse=5']
            for opt in ('--rlc-load', '--trap-load'):
                for mask in itertools.product(('val', 'empty', 'zero'), repeat=3):
                    if 'val' not in mask:
                        continue
                    if opt == '--trap-load' and (mask[1] != 'val' or mask[2] != 'val'):
                        continue        # a trap needs its coil and its capacitor
                    fld = [vals[x] if m_ == 'val' else ('' if m_ == 'empty' else '0') for x, m_ in zip('RLC', mask)]
                    num = [float(vals[x]) if m_ == 'val' else 0.0 for x, m_ in zip('RLC', mask)]
                    arg = '%s=%s' % (opt, ','.join(fld))
                    m, diag = cli.build_main(base + [arg, '--attach-load=1,3'])
                    ev += 1
                    canon.append('cli|%s|%g' % (arg, f))
                    nontriv.append('empty' in mask)
                    if m is None:
                        viol.append(('CLI-LOAD-REJECTED', '%s at %g MHz: %s' % (arg, f, diag[:100])))
                        continue
                    if len(m.loads) != 1 or [q.idx for q in m.loads[0].pulses] != [2]:
                        viol.append(('CLI-LOAD-ATTACH', '%s: loads %s' % (arg, [(type(l).__name__, [q.idx for q in l.pulses]) for l in m.loads])))
                        continue
                    z = m.loads[0].impedance(f, m.pulses[2])
                    if opt == '--rlc-load':
                        ref, sc = circuit.series_rlc(f, num[0], num[1], num[2] or None)
                    else:
                        ref, sc = circuit.trap(f, num[0], num[1], num[2])
                    chk('CLI-LOAD-VALUE', abs(z - ref) / max(sc, 1e-300), 1e-12, '%s at %g MHz acts as %s, the circuit it describes is %s' % (arg, f, z, ref))
            # Laplace loads and plain complex loads as written
            for a, b in (([1., 2e-9], [10., 3e-6]), ([1.], [0., 1e-6]), ([0., 1e-11], [1.]), ([1., 0., 4e-17], [5., 2e-6, 1e-16]), ([2.], [7.])):
                arg = ['--laplace-load-a=' + ','.join(repr(x) for x in a), '--laplace-load-b=' + ','.join(repr(x) for x in b)]
                m, diag = cli.build_main(base + arg + ['--attach-load=1,3'])
                ev += 1
                canon.append('cli|%s|%g' % (arg, f))
                nontriv.append(True)
                if m is None:
                    viol.append(('CLI-LOAD-REJECTED', '%s at %g MHz: %s' % (arg, f, diag[:100])))
                    continue
                ref, sc = circuit.laplace(f, a, b)
                z = m.loads[0].impedance(f, m.pulses[2])
                chk('CLI-LOAD-VALUE', abs(z - ref) / max(sc, 1e-300), 1e-12, '%s at %g MHz acts as %s, the circuit it describes is %s' % (arg, f, z, ref))
            # distributed loads as written: conductivity, resistivity, insulation (radius, eps_r), whole antenna and by tag
            Lp = 1.0        # two half segments of the 10 m / 10 segment wire
            for arg, kind, par in (('--skin-effect-conductivity=2e6', 'skin', 2e6), ('--skin-effect-conductivity=3.5e7,1', 'skin', 3.5e7),
                                   ('--skin-effect-resistivity=4e-7', 'skin', 1 / 4e-7), ('--skin-effect-resistivity=2.5e-8,1', 'skin', 1 / 2.5e-8),
                                   ('--insulation-load=0.004,2.3', 'ins', (0.004, 2.3)), ('--insulation-load=0.0025,4,1', 'ins', (0.0025, 4.))):
                m, diag = cli.build_main(base + [arg])
                ev += 1
                canon.append('cli|%s|%g' % (arg, f))
                nontriv.append(True)
                if m is None:
                    viol.append(('CLI-LOAD-REJECTED', '%s: %s' % (arg, diag[:100])))
                    continue
                z = sum(ld.impedance(f, m.pulses[2]) for ld in m.loads for q in ld.pulses if q is m.pulses[2])
                ref = circuit.skin_per_length(f, 0.001, par)[0] * Lp if kind == 'skin' else circuit.insulation_per_length(f, 0.001, par[0], par[1]) * Lp
                chk('CLI-DIST-VALUE', abs(z - ref) / abs(ref), 1e-6, '%s at %g MHz loads pulse 3 with %s, the closed form gives %s' % (arg, f, z, ref))
            for txt, zz in (('37-12j', 37 - 12j), ('50', 50 + 0j), ('-3+40j', -3 + 40j), ('1e2', 100 + 0j), ('12j', 12j), ('0.5+1e-3j', 0.5 + 1e-3j)):
                m, diag = cli.build_main(base + ['--load=' + txt, '--attach-load=1,3'])
                ev += 1
                canon.append('cli|--load=%s|%g' % (txt, f))
                nontriv.append(True)
                if m is None:
                    viol.append(('CLI-LOAD-REJECTED', '--load=%s: %s' % (txt, diag[:100])))
                    continue
                z = m.loads[0].impedance(f, m.pulses[2])
                chk('CLI-LOAD-VALUE', abs(z - zz) / abs(zz), 1e-12, '--load=%s acts as %s' % (txt, z))
    elif k == 'system':
        pts = [np.array(p) for p in c['pts']]
        case = dict(f=c['f'], env=c['env'], wires=[geom.wire(pts[e['a']], pts[e['b']], e['n'], e['r'], tag=(c['tags'][i] if c.get('tags') else None)) for i, e in enumerate(c['st'])])
        f = c['f']
        m0 = geom.build(case)
        N = len(m0.pulses)
        und = sorted((e['a'], e['b'], e['n']) for e in c['st']) + (['tags'] if c.get('tags') else [])

        def zin(p, loads=(), dist=None, attach=None):
            m = geom.build(case)
            m.register_source(mm.Excitation(1 + 0j), p)
            for ld, at in loads:
                if at == 'abs':
                    m.register_load(ld, p)
                elif at == 'obj':
                    pp = m.pulses[p]
                    m.register_load(ld, pp.geobj.pulses.index(pp), pp.geobj.tag)
            if dist:
                dist(m)
            m.compute()
            return m.sources[0].impedance, m
        loadsets = [
            ('one', lambda: [mm.Impedance_Load(37 - 12j)], 37 - 12j),
            ('two', lambda: [mm.Impedance_Load(37 - 12j), mm.Series_RLC_Load(5, 1e-6, None)], 37 - 12j + circuit.series_rlc(f, 5, 1e-6, None)[0]),
            ('three', lambda: [mm.Impedance_Load(-3 + 40j), mm.Trap_Load(2., 1e-6, 50e-12), mm.Laplace_Load(a=[1., 2e-9], b=[10., 3e-6])],
             -3 + 40j + circuit.trap(f, 2., 1e-6, 50e-12)[0] + circuit.laplace(f, [1., 2e-9], [10., 3e-6])[0]),
            # one load object attached two / three times to the same pulse acts as that many loads in series
            ('twice', lambda: [mm.Impedance_Load(37 - 12j)] * 2, 2 * (37 - 12j)),
            ('thrice', lambda: [mm.Series_RLC_Load(5, 1e-6, 2e-10)] * 3, 3 * circuit.series_rlc(f, 5, 1e-6, 2e-10)[0]),
            ('zero', lambda: [mm.Impedance_Load(0j)], 0j),
            ('rlc-zero', lambda: [mm.Series_RLC_Load(0, 0, 0)], 0j),
        ]
        for p in range(N):
            z0, mref = zin(p)
            ev += 1
            pp = mref.pulses[p]
            kindp = 'ground' if pp.ground.any() else ('junction' if pp.geo[0] is not pp.geo[1] else 'interior')
            for name, mk, zl in loadsets:
                for at in ('abs', 'obj'):
                    z1, m1 = zin(p, [(ld, at) for ld in mk()])
                    ev += 1
                    chk('ZIN-SHIFT-%s-%s' % (kindp, name if name in ('zero', 'rlc-zero') else 'load'), abs((z1 - z0) - zl) / abs(z0), 1e-8,
                        'load set %s (%s form) on the %s feed pulse %d raises Z_in by %s instead of %s' % (name, at, kindp, p + 1, z1 - z0, zl))
                    if at == 'abs' and name in ('one', 'three'):
                        # the loads are added exactly once also when the same object is solved again (other source voltage)
                        m1.sources[0].voltage = 2 - 1j
                        m1.compute()
                        z2 = m1.sources[0].impedance
                        ev += 1
                        chk('ZIN-SHIFT-resolve', abs((z2 - z0) - zl) / abs(z0), 1e-8,
                            'load set %s on feed pulse %d: after a second compute() on the same object Z_in is raised by %s instead of %s' % (name, p + 1, z2 - z0, zl))
            canon.append('sys|%s|%s|feed%d' % (c['env'], und, p))
            nontriv.append(kindp != 'interior')
        # neutral distributed loads and conductivity/resistivity, whole-object / whole-antenna attachment
        p = N // 2
        z0, mref = zin(p)

        def all_skin(sig=None, res=None):
            def f_(m):
                for w in m.geo:
                    ld = mm.Skin_Effect_Load(w, conductivity=sig, resistivity=res, all_wires=True)
                    m.register_load(ld, None, w.tag)
                m.fix_distributed_loads()
            return f_

        def all_ins(er):
            def f_(m):
                for w in m.geo:
                    ld = mm.Insulation_Load(w, w.r_orig * 2, er, all_wires=True)
                    m.register_load(ld, None, w.tag)
                m.fix_distributed_loads()
            return f_
        for name, d in (('sigma1e20', all_skin(sig=1e20)), ('sigma1e30', all_skin(sig=1e30)), ('eps1', all_ins(1.0))):
            z1, m1 = zin(p, dist=d)
            ev += 1
            chk('NEUTRAL-' + name, abs(z1 - z0) / abs(z0), 1e-9 if name != 'sigma1e20' else 1e-6, 'neutral load %s changes Z_in from %s to %s' % (name, z0, z1))
        za, ma = zin(p, dist=all_skin(sig=2.5e6))
        zb, mb = zin(p, dist=all_skin(res=1 / 2.5e6))
        ev += 2
        chk('COND-VS-RES', abs(za - zb) / abs(za), 1e-12, 'conductivity s and resistivity 1/s differ: %s vs %s' % (za, zb))
        chk('SKIN-ACTS', 1e-9, abs(za - z0) / abs(z0) + 1e-300, 'finite conductivity does not change Z_in at all')
        # attachment forms: one lumped load on every pulse
        def by_all(m):
            m.register_load(mm.Impedance_Load(5 + 1j))

        def by_obj(m):
            ld = mm.Impedance_Load(5 + 1j)
            for w in m.geo:
                m.register_load(ld, None, w.tag)

        def by_abs(m):
            ld = mm.Impedance_Load(5 + 1j)
            for i in range(len(m.pulses)):
                m.register_load(ld, i)

        def by_rel(m):
            ld = mm.Impedance_Load(5 + 1j)
            for w in m.geo:
                for i in range(len(w.pulses)):
                    m.register_load(ld, i, w.tag)
        Zs = []
        for fn in (by_all, by_obj, by_abs, by_rel):
            z, mm_ = zin(p, dist=fn)
            ev += 1
            Zs.append(mm_.Z.copy())
        for i, nm in ((1, 'per-object-all'), (2, 'absolute'), (3, 'per-object-pulse')):
            chk('ATTACH-' + nm, float(np.abs(Zs[i] - Zs[0]).max() / np.abs(Zs[0]).max()), 1e-13, 'attachment form %s gives a different system matrix than whole-antenna' % nm)
        D = np.diag(Zs[0] - mref.Z)
        wgt = -1j * (5 + 1j) / mref.m
        gn = np.array([2.0 if q.ground.any() and mref.media is not None else 1.0 for q in mref.pulses])
        chk('ATTACH-once', float(np.abs(D - wgt * gn).max() / abs(wgt)), 1e-9, 'whole-antenna attachment does not load every pulse exactly once')
    return dict(viol=viol[:8], canon=canon, nontriv=nontriv, trans=ev, traces=ev, evals=ev, dev=worst, outcome=k, note=wn)
