"""C06 Results do not depend on how the same conductor structure is described."""
import itertools, math
import numpy as np
from mcx import geom, obs

PID = 'C06'
CHUNK = 1
TOLERANCE = '5e-4 relative (cond<=1e3), 5e-7*cond up to 1e5'
RULE = ('For every canonical structure (simple graph with <= D wires on the seed variant of the 5-point lattice, free '
        'space and over ideal ground, inside the stated domain) ALL n!*2^n orderings x orientations, all collinear '
        'splits on segment boundaries (8 order/orientation forms per split point) and explicit permuted tags are built '
        'and solved; each is compared with the class representative: feed impedances, conductor currents per '
        'half-segment, E/H at 3 near points, E-field at 9 far directions. State = canonical structure; transition = '
        'one description. Non-trivial: structure has a junction or a grounded end.')
ASSUMPTIONS = ['feeds on interior pulses and 2-wire junction pulses only (a source on a k>=3 junction is ambiguous by construction)',
               'structures outside the quantifier domain (separation, angle, one wire per ground point) are skipped, not evaluated']

ZEN_F, ZEN_G, AZI = (20., 50., 3), (10., 35., 3), (15., 100., 3)


RULE = RULE + ' Tag patterns: a three-element array with 6 explicit/automatic tag patterns in all 6 listings, feed and load addressed by tag.'


def bounds(tier, seed):
    return dict(max_wires=3 if tier == 'quick' else 4, variant=geom.variant(seed),
                descriptions='all n!*2^n + splits*8 + tag permutations', radius_variants=1 if tier == 'quick' else 2)


def structure(P, es, nseg, rad):
    return [dict(a=a, b=b, n=n, r=r) for (a, b), n, r in zip(es, nseg, rad)]


def cases(tier, seed):
    yield from extras(tier, seed)
    yield from fixed_cases()
    yield from sym_cases(tier, seed)
    yield from tagorder_cases(tier, seed)
    if tier == 'thorough':
        yield from cases7(tier, seed)
    D = 3 if tier == 'quick' else 4
    for ground, special in ((False, False), (True, False), (False, True), (True, True)):
        P, f, lam = geom.lattice(seed, ground=ground, special=special)
        pts = [list(map(float, p)) for p in P]
        if special:
            D = 2 if tier == 'quick' else 3
        variants = [((3, 2, 3, 2), (3e-5, 2e-4, 3e-5, 2e-4)), (0.05, (2e-4, 3e-5, 2e-4, 3e-5))]
        if tier == 'thorough':
            variants.append(((2, 4, 3, 2), (2e-4, 2e-4, 3e-5, 3e-5)))
        for es in geom.edge_sets(5, D):
            if not geom.connected(es) and len(es) > 2 and tier == 'quick':
                pass
            for nseg, rad in variants:
                if not isinstance(nseg, tuple):
                    nseg = [geom.auto_nseg(np.linalg.norm(P[a] - P[b]), nseg * lam) for a, b in es]
                st = [dict(a=a, b=b, n=nseg[i], r=rad[i] * lam) for i, (a, b) in enumerate(es)]
                yield dict(env='ideal' if ground else 'free', f=f, lam=lam, pts=pts, st=st)


def tagorder_cases(tier, seed):
    """three parallel elements of which some carry explicit tags; the feed (and a load) are addressed through the tag of one
    explicitly tagged element: every listing order of the three wires describes the same antenna"""
    rot, sc, f = geom.variant(seed)
    lam = geom.C_MININEC / f
    for pattern in ((1, 2, None), (2, 3, None), (3, None, 1), (None, 2, None), (5, None, None), (2, 1, None)):
        yield dict(tagorder=list(pattern), env='free', f=f, lam=lam)


def eval_tagorder(c):
    import itertools as it
    import mininec.mininec as mm
    lam, pattern = c['lam'], c['tagorder']
    r = 2e-4 * lam
    xs = (-0.2 * lam, 0.0, 0.15 * lam)
    hl = (0.25 * lam, 0.235 * lam, 0.22 * lam)
    ws = [geom.wire([x, -h, 0.1 * lam], [x, h, 0.1 * lam], 10, r, tag=t) for x, h, t in zip(xs, hl, pattern)]
    fed = [i for i, t in enumerate(pattern) if t is not None][0]
    zs, viol = {}, []
    for order in it.permutations(range(3)):
        m = geom.build(dict(f=c['f'], env='free', wires=[ws[i] for i in order]), sources=False, loads=False)
        try:
            m.register_source(mm.Excitation(1 + 0j), 4, pattern[fed])
            m.register_load(mm.Impedance_Load(25 + 5j), 2, pattern[fed])
            m.compute()
        except Exception as e:
            viol.append(('TAGORDER-REJECTED', 'tags %s listed in order %s: %s' % (pattern, order, str(e)[:80])))
            continue
        z = m.sources[0].impedance
        # independent of the tag bookkeeping: where the fed pulse sits
        x_fed = float(m.pulses[m.sources[0].idx].point[0])
        if abs(x_fed - xs[fed]) > 1e-9 * lam:
            viol.append(('TAGORDER-FEED', 'tags %s listed in order %s: the source addressed by tag %s sits on the element at x=%.4g, the element with that tag is at x=%.4g' % (pattern, order, pattern[fed], x_fed, xs[fed])))
        zs[order] = z
    if zs:
        z0 = list(zs.values())[0]
        dev = max(abs(z - z0) / abs(z0) for z in zs.values())
        if dev > 1e-9:
            viol.append(('TAGORDER-Z', 'tags %s: feed impedance depends on the listing order: %s' % (pattern, {k: complex(np.round(v, 4)) for k, v in zs.items()})))
    else:
        dev = 0.0
    return dict(viol=viol[:4], canon=['tagorder|%s|%s' % (pattern, o) for o in zs], nontriv=[True] * len(zs), trans=6, traces=len(zs), evals=6, dev=dev, outcome='tagorder')


def sym_cases(tier, seed):
    """mirror-symmetric antennas (plane x = 0) with a symmetric feed, in every order and orientation: the conductor
    currents are mirror images of each other (odd for a feed across the plane, even for two equal feeds)"""
    rot, sc, f = geom.variant(seed)
    lam = geom.C_MININEC / f
    r = 2e-4 * lam
    M = np.array([-1., 1., 1.])
    h = 0.3 * lam
    O = np.array([0., 0., h])
    A = np.array([0.2, 0.05, 0.4]) * lam
    B1, B2 = np.array([0.1, 0., 0.3]) * lam, np.array([0.18, 0.1, 0.4]) * lam
    G, T = np.array([0.1, 0., 0.]) * lam, np.array([0., 0.05, 0.2]) * lam
    fams = [('V-free', 'free', [(O, A, 5), (O, A * M, 5)], [dict(at=list(O), dir=[1., 0., 0.], v=[1.0, 0.0])], -1),
            ('V-ideal', 'ideal', [(O, A, 5), (O, A * M, 5)], [dict(at=list(O), dir=[1., 0., 0.], v=[1.0, 0.0])], -1),
            ('U-free', 'free', [(B1 * M, B1, 4), (B1, B2, 3), (B1 * M, B2 * M, 3)], [dict(at=list(O), dir=[1., 0., 0.], v=[1.0, 0.0])], -1),
            ('A-ideal', 'ideal', [(G, T, 5), (G * M, T, 5)], [dict(at=list(G), dir=list(T - G), v=[0.6, -0.8]), dict(at=list(G * M), dir=list(T - G * M), v=[0.6, -0.8])], +1)]
    for name, env, ws, srcs, parity in fams:
        k = len(ws)
        for order in itertools.permutations(range(k)):
            for flips in itertools.product((0, 1), repeat=k):
                wires = [geom.wire(ws[i][1], ws[i][0], ws[i][2], r) if flips[i] else geom.wire(ws[i][0], ws[i][1], ws[i][2], r) for i in order]
                yield dict(sym=name, env=env, f=f, lam=lam, wires=wires, srcs=srcs, parity=parity,
                           desc='%s%s' % (''.join(map(str, order)), ''.join(map(str, flips))))


def eval_sym(c):
    case = dict(f=c['f'], env=c['env'], wires=c['wires'])
    m = geom.build(case)
    pm = geom.pulse_by_point(m)
    # a feed across the mirror plane sits on a junction pulse (V) or an interior pulse (U): addressed by its point and its two far ends
    srcs = []
    for s_ in c['srcs']:
        cands = geom.pulses_at(pm, s_['at'])
        if len(cands) != 1:
            return dict(viol=[('HARNESS', '%d pulses at the feed point' % len(cands))])
        srcs.append(dict(pulse=cands[0].idx, v=(np.array(s_['v']) * np.sign(np.dot(geom.orient(cands[0]), np.array(s_['dir'])))).tolist()))
    geom.add_sources(m, srcs)
    m.compute()
    tol, cond = geom.cond_tol(m)
    if tol is None:
        return dict(viol=[], skipped='cond>1e5', evals=1)
    h = geom.half_currents(m)
    Mx = np.diag([-1., 1., 1.])
    hm = h.transformed(Mx)
    hm = geom.HC(hm.P, hm.U, c['parity'] * hm.I, hm.tol)
    d = geom.cmp_half_currents(hm, h)
    viol = []
    if d is None:
        viol.append(('SYM-KEYS', '%s %s: the half-segment table is not mirror symmetric' % (c['sym'], c['desc'])))
        d = 0.0
    elif not (d <= tol):
        viol.append(('SYM-CURRENTS', '%s description %s: conductor currents deviate %.3g from their mirror image (limit %.3g, cond %.0f)' % (c['sym'], c['desc'], d, tol, cond)))
    return dict(viol=viol, canon='sym|%s|%s' % (c['sym'], c['desc']), nontriv=True, trans=1, traces=1, evals=1, dev=d, outcome='sym')


def cases7(tier, seed):
    """thorough tier: structures with <= 3 wires that use the two extra points of the 7-point lattices"""
    for ground in (False, True):
        P, f, lam = geom.lattice(seed, ground=ground, n=7)
        pts = [list(map(float, p)) for p in P]
        for es in geom.edge_sets_new(7, 3):
            nseg = [geom.auto_nseg(np.linalg.norm(P[a] - P[b]), 0.05 * lam) for a, b in es]
            rad = (2e-4, 3e-5, 2e-4)
            yield dict(env='ideal' if ground else 'free', f=f, lam=lam, pts=pts, st=[dict(a=a, b=b, n=nseg[i], r=rad[i] * lam) for i, (a, b) in enumerate(es)])


def extras(tier, seed, thick=False):
    """structures with objects whose end segments differ (tapered wires, arcs, helices): the junction
    pulse then depends on WHICH end segment of the earlier object is taken"""
    rot, sc, f = geom.variant(seed)
    lam = geom.C_MININEC / f
    r = 2e-4 * lam
    A, B, C = np.array([0., 0., 0.]), np.array([0.16, 0.02, 0.03]) * lam, np.array([0.19, 0.13, 0.08]) * lam
    Rg = geom.rotmat(rot)
    A, B, C = Rg @ A, Rg @ B, Rg @ C
    # --- tapered wire AB (6 segments) + uniform BC / uniform CA (junction at either end of the taper)
    # the junction at the FINE end of a taper (segment ratio ~60:1) is a known finding: it is evaluated only
    # on one fixed, seed-independent geometry per taper type; the seed-dependent enumeration keeps to junctions
    # at the coarse end
    f0 = 30.0
    lam0 = geom.C_MININEC / f0
    R0 = geom.rotmat((17., -33., 71.))
    A0, B0, C0 = R0 @ (np.array([0., 0., 0.])), R0 @ (np.array([0.16, 0.02, 0.03]) * lam0), R0 @ (np.array([0.19, 0.13, 0.08]) * lam0)
    for ttype in (1, 2, 3):
        fine = {1: 'end1', 2: 'end2', 3: None}[ttype]
        for jend, (p, q) in (('end2', (B, C)), ('end1', (A, A + (C - B)))):
            fixed = (jend == fine) or (ttype == 3 and jend == 'end1')
            if ttype == 3 and jend == 'end2':
                continue     # both ends fine: covered by the fixed end1 case
            if fixed:
                (A, B, C, f, lam, r), keep = (A0, B0, C0, f0, lam0, 2e-4 * lam0), (A, B, C, f, lam, r)
                p, q = ((B, C) if jend == 'end2' else (A, A + (C - B)))
            descs = []
            for first in (0, 1):
                for fa in (0, 1):
                    for fb in (0, 1):
                        tt = ttype if not fa else {1: 2, 2: 1, 3: 3}[ttype]
                        wa = geom.wire(B, A, 6, r, taper=[tt]) if fa else geom.wire(A, B, 6, r, taper=[tt])
                        wb = geom.wire(q, p, 3, r) if fb else geom.wire(p, q, 3, r)
                        descs.append([wa, wb] if first == 0 else [wb, wa])
            src = [dict(at=list(p + (q - p) / 3), dir=list(q - p), v=[1.0, 0.0])]
            yield dict(extra='taper%d-%s%s' % (ttype, jend, '-fine-fixed' if fixed else ''), env='free', f=f, lam=lam,
                       descs=descs, srcs=src, loads=[])
            if fixed:
                A, B, C, f, lam, r = keep
    # --- a tapered wire against the same wire written as single-segment wires on the taper's segment boundaries
    import mininec.mininec as mm
    for env in ('free', 'ideal'):
        for ttype, nt in ((3, 6), (1, 5), (2, 5), (3, 7)):
            G = np.array([0.02, 0.03, 0.0 if env == 'ideal' else 0.05]) * lam
            # over ground the tapered wire is vertical: the matrix-fill shortcuts are switched off for sloping grounded pulses
            T1 = G + (np.array([0.03, 0.02, 0.22]) if env == 'free' else np.array([0., 0., 0.22])) * lam
            T2 = T1 + np.array([0.10, 0.06, 0.03]) * lam
            wt = mm.Wire(nt, *G, *T1, r)
            wt.segtype = ttype
            mm.Mininec(f, [wt])
            pieces = [geom.wire(sg.p1, sg.p2, 1, r) for sg in wt.segments]
            tail = geom.wire(T1, T2, 3, r)
            descs = [[geom.wire(G, T1, nt, r, taper=[ttype]), tail], pieces + [tail], [tail] + pieces,
                     [geom.wire(sg.p2, sg.p1, 1, r) for sg in wt.segments][::-1] + [tail]]
            yield dict(extra='taper%d-split-%s-n%d' % (ttype, env, nt), env=env, f=f, lam=lam, descs=descs,
                       srcs=[dict(at=list(T1 + (T2 - T1) / 3), dir=list(T2 - T1), v=[1.0, 0.0])], loads=[])
    # --- telescoping element: exactly collinear wires of EQUAL segment length but different radii (bit-identical
    # segment vectors on both sides of a junction: coordinates are binary fractions), axis-parallel and sloping,
    # free space, horizontal above ground and standing on the ground
    ft = 30.0
    lt = geom.C_MININEC / ft
    for name, env, o, d in (('y-free', 'free', (0., -1., 0.5), (0., 1., 0.)), ('x-ideal', 'ideal', (-1., 0., 1.25), (1., 0., 0.)),
                            ('z-ideal', 'ideal', (0., 0., 0.), (0., 0., 1.)), ('diag-free', 'free', (0., 0., 0.), (0.5, 0.25, 0.75))):
        o, d = np.array(o), np.array(d)
        # thick=True (C02 only, whose statement has no radius/length limit): centre tube of 0.3 segment lengths radius
        for radii in ((0.002, 0.0075, 0.002), (0.0075, 0.002, 0.004), (0.002, 0.03, 0.004)) + (((0.004, 0.075, 0.004),) if thick else ()):
            stops = [o, o + d, o + 2 * d, o + 3 * d]
            descs = []
            for order in ((0, 1, 2), (2, 1, 0), (1, 0, 2)):
                for flips in ((0, 0, 0), (1, 1, 1), (0, 1, 0)):
                    descs.append([geom.wire(stops[i + 1], stops[i], 4, radii[i]) if flips[i] else geom.wire(stops[i], stops[i + 1], 4, radii[i])
                                  for i in order])
            yield dict(extra='telescope-%s-%g-%g-%g' % ((name,) + radii), env=env, f=ft, lam=lt, descs=descs,
                       srcs=[dict(at=list(o + 1.5 * d), dir=list(d), v=[1.0, 0.0])], loads=[])
    # --- distributed loads (skin effect + insulation sleeve) on ONE object of a junction: the junction pulse is owned by
    # either neighbour depending on order/orientation and must carry the loaded half in every description
    Bd, Cd = np.array([0.15, 0.03, 0.04]) * lam, np.array([0.21, 0.14, 0.11]) * lam
    Dd = Cd + np.array([-0.03, 0.12, 0.05]) * lam
    for name, chain, loaded in (('2w-first', (A, Bd, Cd), (0,)), ('2w-second', (A, Bd, Cd), (1,)), ('3w-middle', (A, Bd, Cd, Dd), (1,)),
                                ('3w-outer', (A, Bd, Cd, Dd), (0, 2))):
        chain = [Rg @ np.array(p) for p in chain]
        nw = len(chain) - 1
        nsg = [geom.auto_nseg(np.linalg.norm(chain[i + 1] - chain[i]), 0.035 * lam) for i in range(nw)]
        descs = []
        for order in itertools.permutations(range(nw)):
            for flips in itertools.product((0, 1), repeat=nw):
                ws = []
                for i in order:
                    w_ = geom.wire(chain[i + 1], chain[i], nsg[i], r) if flips[i] else geom.wire(chain[i], chain[i + 1], nsg[i], r)
                    if i in loaded:
                        w_['skin'] = 2e5
                        w_['coat'] = [3 * r, 3.5]
                    ws.append(w_)
                descs.append(ws)
        p0, p1 = chain[0], chain[1]
        yield dict(extra='distload-' + name, env='free', f=f, lam=lam, descs=descs,
                   srcs=[dict(at=list(p1 + (p0 - p1) / nsg[0]), dir=list(p1 - p0), v=[1.0, 0.0])], loads=[])
    # --- arc (in its own x-z plane, centre at the origin) + straight tail at either arc end
    R = 0.06 * lam
    for (a1, a2) in ((0., 120.), (30., -100.)):
        for jend in (0, 1):
            aj = math.radians(a2 if jend else a1)
            X = np.array([R * math.cos(aj), 0., R * math.sin(aj)])
            T = X + np.array([0.03, 0.08, 0.02]) * lam * (1 if jend else -1)
            descs = []
            for first in (0, 1):
                for fa in (0, 1):
                    for fb in (0, 1):
                        arc = dict(kind='arc', n=5, radius=R, ang1=a2 if fa else a1, ang2=a1 if fa else a2, r=r)
                        wb = geom.wire(T, X, 3, r) if fb else geom.wire(X, T, 3, r)
                        descs.append([arc, wb] if first == 0 else [wb, arc])
            src = [dict(at=list(X + (T - X) / 3), dir=list(T - X), v=[1.0, 0.0])]
            yield dict(extra='arc%g-%g-end%d' % (a1, a2, jend + 1), env='free', f=f, lam=lam, descs=descs, srcs=src, loads=[])
    # arc standing on the ground plane with its first end, tail from the top
    X = np.array([0., 0., R])
    T = X + np.array([-0.08, 0.03, 0.01]) * lam
    descs = []
    for first in (0, 1):
        for fa in (0, 1):
            for fb in (0, 1):
                arc = dict(kind='arc', n=5, radius=R, ang1=90. if fa else 0., ang2=0. if fa else 90., r=r)
                wb = geom.wire(T, X, 3, r) if fb else geom.wire(X, T, 3, r)
                descs.append([arc, wb] if first == 0 else [wb, arc])
    yield dict(extra='arc-ground', env='ideal', f=f, lam=lam, descs=descs,
               srcs=[dict(at=list(X + (T - X) / 3), dir=list(T - X), v=[1.0, 0.0])], loads=[])
    # --- helix (axis z, radius-tapered) + tail at top / bottom; free space and standing on the ground
    hl, tl, rx1, rx2 = 0.09 * lam, 0.06 * lam, 0.02 * lam, 0.012 * lam
    for hand in (1, -1):
        hx = dict(kind='helix', n=9, length=hl, turnlen=hand * tl, r=r, radii=[rx1, rx1, rx2, rx2])
        ang = hand * (hl % tl) / tl * 2 * math.pi
        top = np.array([rx2 * math.cos(ang), rx2 * math.sin(ang), hl])
        bot = np.array([rx1, 0., 0.])
        for env, jn, X, T in (('free', 'top', top, top + np.array([0.05, 0.02, 0.06]) * lam),
                              ('free', 'bottom', bot, bot + np.array([0.06, -0.03, -0.05]) * lam),
                              ('ideal', 'top', top, top + np.array([0.05, 0.02, 0.06]) * lam)):
            descs = []
            for first in (0, 1):
                for fb in (0, 1):
                    wb = geom.wire(T, X, 3, r) if fb else geom.wire(X, T, 3, r)
                    descs.append([hx, wb] if first == 0 else [wb, hx])
            yield dict(extra='helix%+d-%s-%s' % (hand, jn, env), env=env, f=f, lam=lam, descs=descs,
                       srcs=[dict(at=list(X + (T - X) / 3), dir=list(T - X), v=[1.0, 0.0])], loads=[])


def eval_extra(c):
    ground = c['env'] != 'free'
    zen = ZEN_G if ground else ZEN_F
    obsv, conds = [], None
    viol, worst, wd = [], 0.0, None
    tol = None
    nfp = None
    for i, ws in enumerate(c['descs']):
        cs = dict(f=c['f'], env=c['env'], wires=ws, sources=c['srcs'], loads=c['loads'])
        try:
            m = obs.solve(geom.build(cs))
        except ValueError as e:
            viol.append(('REJECTED', 'description %d rejected: %s' % (i, e)))
            continue
        if nfp is None:
            for p in m.pulses:
                if p.geo[0] is not p.geo[1]:
                    u = np.array(p.ends[0], float) - np.array(p.point, float)
                    v = np.array(p.ends[1], float) - np.array(p.point, float)
                    ang = math.degrees(math.acos(max(-1., min(1., u @ v / np.linalg.norm(u) / np.linalg.norm(v)))))
                    if ang < 42:
                        return dict(viol=[], skipped='extra-junction-angle<42', evals=1)
            ends = np.array([[s.p1, s.p2] for g in m.geo for s in g.segments]).reshape(-1, 3)
            cen, ext = ends.mean(axis=0), np.ptp(ends, axis=0).max()
            nfp = [list(cen + np.array(d) * ext) for d in ([1.3, 0.9, 1.4], [-1.6, 1.1, 0.8], [0.4, -1.9, 1.0])]
            tol, cond = geom.cond_tol(m)
            if tol is None:
                return dict(viol=[], skipped='cond>1e5', evals=1)
        o = obs.observe(m, zen, AZI, nfp)
        if not obsv:
            obsv.append(o)
            continue
        dv = obs.compare(obsv[0], o)
        for k, x in dv.items():
            if x / tol > worst:
                worst, wd = x / tol, (k, i)
            if not (x <= tol):
                viol.append(('DEV-%s-extra' % k, '%s deviates %.3g > %.3g between description 0 and %d of %s (cond %.0f)' % (k, x, tol, i, c['extra'], cond)))
    n = len(c['descs'])
    return dict(viol=viol[:6], canon='extra|' + c['extra'], nontriv=True, trans=n, traces=n - 1, evals=n, dev=worst * (tol or 0),
                outcome='extra', note=dict(worst=wd))


def fixed_cases():
    """seed-independent inputs kept as known findings"""
    P, f, lam = geom.lattice(0, ground=False)
    pts = [list(map(float, p)) for p in P]
    st = [dict(a=1, b=3, n=2, r=2e-4 * lam), dict(a=2, b=3, n=4, r=2e-4 * lam), dict(a=3, b=4, n=3, r=3e-5 * lam)]
    yield dict(env='free', f=f, lam=lam, pts=pts, st=st, fixed=True)


def rep_case(c, order=None, flips=None, tags=None, split=None):
    """build a case dict for a description of structure c['st']"""
    pts = [np.array(p) for p in c['pts']]
    st = c['st']
    n = len(st)
    order = list(range(n)) if order is None else order
    flips = [0] * n if flips is None else flips
    ws = []
    for k, i in enumerate(order):
        e = st[i]
        a, b = (e['b'], e['a']) if flips[k] else (e['a'], e['b'])
        pieces = [(pts[a], pts[b], e['n'])]
        if split is not None and split['wire'] == i:
            kk = split['k']
            p1, p2 = pts[e['a']], pts[e['b']]
            mid = p1 + (p2 - p1) * kk / e['n']
            pcs = [(p1, mid, kk), (mid, p2, e['n'] - kk)]
            pcs = [(q, p, nn) if fl else (p, q, nn) for (p, q, nn), fl in zip(pcs, split['flips'])]
            if split['swap']:
                pcs = pcs[::-1]
            pieces = pcs
        for p, q, nn in pieces:
            w = geom.wire(p, q, nn, e['r'])
            ws.append(w)
    if tags is not None:
        for w, t in zip(ws, tags):
            w['tag'] = t
    return dict(f=c['f'], env=c['env'], wires=ws)


def excitation(c):
    """geometric sources / load from the representative"""
    pts = [np.array(p) for p in c['pts']]
    st = c['st']
    srcs, loads = [], []
    e = st[0]
    p1, p2 = pts[e['a']], pts[e['b']]
    if e['n'] >= 2:
        srcs.append(dict(at=list(p1 + (p2 - p1) / e['n']), dir=list(p2 - p1), v=[1.0, 0.0]))
    # a 2-wire junction pulse (degree exactly 2, not on ground)
    deg = {}
    for e in st:
        for v in (e['a'], e['b']):
            deg.setdefault(v, []).append(e)
    for v, el in sorted(deg.items()):
        if len(el) == 2 and not (c['env'] != 'free' and abs(pts[v][2]) < 1e-12):
            fa = el[0]['b'] if el[0]['a'] == v else el[0]['a']
            fb = el[1]['b'] if el[1]['a'] == v else el[1]['a']
            A = pts[v] + (pts[fa] - pts[v]) / el[0]['n']
            B = pts[v] + (pts[fb] - pts[v]) / el[1]['n']
            srcs.append(dict(at=list(pts[v]), dir=list(B - A), v=[0.5, -0.5]))
            break
    e = st[-1]
    if e['n'] >= 2 and len(st) > 1:
        p1, p2 = pts[e['a']], pts[e['b']]
        loads.append(dict(kind='z', z=[30.0, 40.0], at=list(p2 + (p1 - p2) / e['n'])))
    if not srcs:
        return None, None
    return srcs, loads


def nfpoints(c):
    pts = np.array(c['pts'])
    cen = pts.mean(axis=0)
    s = np.linalg.norm(pts[1] - pts[0])
    d = np.array([[1.3, 0.9, 1.4], [-1.6, 1.1, 0.8], [0.4, -1.9, 1.0]]) * s
    out = cen + d
    return [list(p) for p in out]


def descriptions(c):
    st = c['st']
    n = len(st)
    for order in itertools.permutations(range(n)):
        for flips in itertools.product((0, 1), repeat=n):
            yield dict(order=list(order), flips=list(flips))
    for order in itertools.permutations(range(n)):
        if list(order) == list(range(n)):
            continue
        # listing in representative order but explicit tags that sort into `order`
        tags = [0] * n
        for rank, i in enumerate(order):
            tags[i] = 2 * rank + 3
        yield dict(tags=tags)
    for i, e in enumerate(st):
        for k in range(1, e['n']):
            for fl in itertools.product((0, 1), repeat=2):
                for swap in (0, 1):
                    yield dict(split=dict(wire=i, k=k, flips=list(fl), swap=swap))


def evaluate(c):
    if 'extra' in c:
        return eval_extra(c)
    if 'sym' in c:
        return eval_sym(c)
    if 'tagorder' in c:
        return eval_tagorder(c)
    ground = c['env'] != 'free'
    rep = rep_case(c)
    reason = geom.domain(rep, c['lam'], ground=ground)
    if reason:
        return dict(viol=[], skipped='domain:' + reason, evals=0)
    srcs, loads = excitation(c)
    if srcs is None:
        return dict(viol=[], skipped='no-feed-position', evals=0)
    rep['sources'], rep['loads'] = srcs, loads
    zen = ZEN_G if ground else ZEN_F
    nfp = nfpoints(c)
    try:
        m0 = obs.solve(geom.build(rep))
    except ValueError as e:
        return dict(viol=[], skipped='rejected:' + str(e)[:40], evals=1)
    tol, cond = geom.cond_tol(m0)
    if tol is None:
        return dict(viol=[], skipped='cond>1e5', evals=1)
    o0 = obs.observe(m0, zen, AZI, nfp)
    viol, worst, ndesc = [], 0.0, 0
    nskip = 0
    wdesc = None
    for d in descriptions(c):
        cs = rep_case(c, d.get('order'), d.get('flips'), d.get('tags'), d.get('split'))
        if 'split' in d and not c.get('fixed') and geom.domain(cs, c['lam'], ground=ground):
            nskip += 1          # the split description itself leaves the sub-domain (a short piece next to a junction)
            continue
        cs['sources'], cs['loads'] = srcs, loads
        m = obs.solve(geom.build(cs))
        o = obs.observe(m, zen, AZI, nfp)
        dv = obs.compare(o0, o)
        ndesc += 1
        for k, x in dv.items():
            if x / tol > worst:
                worst, wdesc = x / tol, (k, d)
            if not (x <= tol):
                kind = 'split' if 'split' in d else ('tags' if 'tags' in d else 'order')
                viol.append(('DEV-%s-%s' % (k, kind), '%s deviates %.3g > %.3g for description %s (cond %.0f)' % (k, x, tol, d, cond)))
    und = sorted((min(e['a'], e['b']), max(e['a'], e['b']), e['n'], round(e['r'], 9)) for e in c['st'])
    return dict(viol=viol[:6], canon='%s|%s' % (c['env'], und), nontriv=geom.junction_degree(rep) >= 2 or ground,
                trans=ndesc, traces=ndesc, evals=ndesc + 1, dev=worst * tol,
                outcome='k=%d,nsrc=%d' % (geom.junction_degree(rep), len(srcs)), note=dict(cond=cond, worst=wdesc),
                skips={'split-description-out-of-domain': nskip} if nskip else None)
