"""C02 Impedance-matrix terms equal the MININEC-3 potential-integral formulation."""
import itertools
import numpy as np
from mcx import geom
from mcx.ref import zref
from mcx.props import c06, c03

PID = 'C02'
CHUNK = 1
TOLERANCE = '|Z_code - Z_ref| <= 1e-4 * (|k^2 A.l| + sum |psi/L|)'
RULE = ('Lattice structures with <= D wires (generic and axis-aligned lattices, free space and ideal ground, every '
        'assignment of thin/thick radius for <=2 wires, alternating for more), grounded at either end, plus every '
        'description of the curved/tapered junction structures (arc, helix, one- and two-sided tapers joined at '
        'either end in every order/orientation; collinear telescoping wires of equal segment length and different radii; '
        'a grounded wire at 11 lean angles 0..20 deg). For each built model ALL ordered pulse pairs (m,n) whose centres are '
        '>= 2.5 x the longest of the four segments involved apart are evaluated with adaptive quadrature from pulse '
        'point, far ends, radii and frequency only. State = (structure, pair); transition = one reference evaluation. '
        'Non-trivial: a junction, grounded, tapered or curved pulse is involved.')
ASSUMPTIONS = ['formulation as in the statement (reduced kernel, radius inside R for radius > 1e-4 wavelength)',
               'near terms (< 2.5 segments) are outside the statement']


def bounds(tier, seed):
    return dict(max_wires=3 if tier == 'quick' else 4, variant=geom.variant(seed))


def cases(tier, seed):
    D = 3 if tier == 'quick' else 4
    for ground, special in ((False, False), (True, False), (False, True), (True, True)):
        P, f, lam = geom.lattice(seed, ground=ground, special=special)
        pts = [list(map(float, p)) for p in P]
        for es in geom.edge_sets(5, D):
            if special and len(es) > (2 if tier == 'quick' else 3):
                continue
            nseg = [geom.auto_nseg(np.linalg.norm(P[a] - P[b]), 0.04 * lam, nmin=3) for a, b in es]
            rads = list(itertools.product((3e-5, 2e-4), repeat=len(es))) if len(es) <= 2 else [(3e-5, 2e-4, 3e-5, 2e-4), (2e-4, 2e-4, 3e-5, 3e-5)]
            for rad in rads:
                for flip in ((0,) * len(es), (1,) * len(es)):
                    st = [dict(a=(b if fl else a), b=(a if fl else b), n=nseg[i], r=rad[i] * lam) for i, ((a, b), fl) in enumerate(zip(es, flip))]
                    yield dict(env='ideal' if ground else 'free', f=f, lam=lam, pts=pts, st=st)
    if tier == 'thorough':
        for ground in (False, True):
            P, f, lam = geom.lattice(seed, ground=ground, n=7)
            pts = [list(map(float, p)) for p in P]
            for es in geom.edge_sets_new(7, 3):
                nseg = [geom.auto_nseg(np.linalg.norm(P[a] - P[b]), 0.04 * lam, nmin=3) for a, b in es]
                yield dict(env='ideal' if ground else 'free', f=f, lam=lam, pts=pts,
                           st=[dict(a=a, b=b, n=nseg[i], r=(3e-5, 2e-4, 3e-5)[i] * lam) for i, (a, b) in enumerate(es)])
    for c in c03._lean(tier, seed):
        yield dict(env='ideal', f=c['f'], lam=c['lam'], pts=c['pts'], st=c['st'], name=c['name'])
    for c in c06.extras(tier, seed, thick=True):
        for i, ws in enumerate(c['descs']):
            yield dict(env=c['env'], f=c['f'], lam=c['lam'], wires=ws, name='%s#%d' % (c['extra'], i))


def evaluate(c):
    ground = c['env'] != 'free'
    if 'wires' in c:
        case = dict(f=c['f'], env=c['env'], wires=c['wires'])
        name = c['name']
    else:
        pts = [np.array(p) for p in c['pts']]
        case = dict(f=c['f'], env=c['env'], wires=[geom.wire(pts[e['a']], pts[e['b']], e['n'], e['r']) for e in c['st']])
        name = '%s%s|%s' % (c.get('name', ''), c['env'], [(e['a'], e['b'], e['n'], round(e['r'] / c['lam'], 6)) for e in c['st']])
        if ground:
            both = [w for w in case['wires'] if abs(w['p1'][2]) < 1e-9 and abs(w['p2'][2]) < 1e-9]
            if both:
                return dict(viol=[], skipped='both-ends-grounded', evals=0)
    try:
        m = geom.build(case)
    except ValueError as e:
        return dict(viol=[], skipped='rejected:' + str(e)[:30], evals=0)
    if len(m.pulses) == 0:
        return dict(viol=[], skipped='no-pulse', evals=0)
    m.compute_impedance_matrix()
    pgv = geom.pulse_geometry_violations(m)
    k = 2 * np.pi / m.wavelen
    srm = 1e-4 * m.wavelen
    viol, worst, n, wn = [(a, '%s: %s' % (name, b)) for a, b in pgv[:3]], 0.0, 0, None
    canon, nontriv = [], []
    cen, seglen = [], []
    for p in m.pulses:
        cen.append(np.array(p.point, float))
        seglen.append(max(np.linalg.norm(np.array(p.ends[0], float) - p.point), np.linalg.norm(np.array(p.ends[1], float) - p.point)))
    for pm in m.pulses:
        for pn in m.pulses:
            if pm.idx == pn.idx:
                continue
            if np.linalg.norm(cen[pm.idx] - cen[pn.idx]) < 2.5 * max(seglen[pm.idx], seglen[pn.idx]):
                continue
            ref, mag = zref.entry(pm, pn, k, srm, ground)
            dev = abs(m.Z[pm.idx, pn.idx] - ref) / mag
            n += 1
            special = (pm.geo[0] is not pm.geo[1]) or (pn.geo[0] is not pn.geo[1]) or pm.ground.any() or pn.ground.any() or 'wires' in c
            canon.append('%s|%d,%d' % (name, pm.idx, pn.idx))
            nontriv.append(bool(special))
            if dev > worst:
                worst, wn = dev, (pm.idx, pn.idx)
            if not (dev <= 1e-4):
                kind = 'gnd' if (pn.ground.any() or pm.ground.any()) else ('junction' if (pm.geo[0] is not pm.geo[1] or pn.geo[0] is not pn.geo[1]) else 'interior')
                viol.append(('ZDEV-%s-%s' % (c['env'], kind), 'Z[%d,%d]=%s, formulation gives %s: deviation %.3g of the potential terms (%s)'
                             % (pm.idx, pn.idx, m.Z[pm.idx, pn.idx], ref, dev, name)))
    if n == 0:
        return dict(viol=[], skipped='no-separated-pair', evals=1)
    return dict(viol=viol[:6], canon=canon, nontriv=nontriv, trans=n, traces=n, evals=n, dev=worst, outcome=c['env'], note=dict(pair=wn, name=name))
