"""C02 Impedance-matrix terms equal the MININEC-3 potential-integral formulation."""
import itertools
import numpy as np
from mcx import geom
from mcx.ref import zref
from mcx.props import c06, c03

PID = 'C02'
CHUNK = 1
TOLERANCE = '|Z_code - Z_ref| <= 1e-4 * (|k^2 A.l| + sum |psi/L|)'
RULE = ('Lattice structures with <= D wires (generic and axis-aligned lattices, free space and ideal ground, every '
        'assignment of thin/thick radius for <=2 wires, alternating for more), grounded at either end, plus every '
        'description of the curved/tapered junction structures (arc, helix, one- and two-sided tapers joined at '
        'either end in every order/orientation; collinear telescoping wires of equal segment length and different radii; '
        'a grounded wire at 11 lean angles 0..20 deg; <=2-wire mixed-radius structures a second time on the SAME object at '
        '4 f and f/4, where every radius changes its thin/thick class). For each built model ALL ordered pulse pairs (m,n) whose centres are '
        '>= 2.5 x the longest of the four segments involved apart are evaluated with adaptive quadrature from pulse '
        'point, far ends, radii and frequency only. State = (structure, pair); transition = one reference evaluation. '
        'Non-trivial: a junction, grounded, tapered or curved pulse is involved.')
ASSUMPTIONS = ['formulation as in the statement (reduced kernel, radius inside R for radius > 1e-4 wavelength)',
               'near terms (< 2.5 segments) are outside the statement']


RULE = RULE + ' One case per two-wire structure fills the matrix of the same object a second time at the same frequency.'
RULE = RULE + ' One-segment end stubs / hat arms on a six-segment host (7 orientations and listings, thin and thick radius, free space and ground).'


def bounds(tier, seed):
    return dict(max_wires=3 if tier == 'quick' else 4, variant=geom.variant(seed))


def cases(tier, seed):
    D = 3 if tier == 'quick' else 4
    for ground, special in ((False, False), (True, False), (False, True), (True, True)):
        P, f, lam = geom.lattice(seed, ground=ground, special=special)
        pts = [list(map(float, p)) for p in P]
        for es in geom.edge_sets(5, D):
            if special and len(es) > (2 if tier == 'quick' else 3):
                continue
            nseg = [geom.auto_nseg(np.linalg.norm(P[a] - P[b]), 0.04 * lam, nmin=3) for a, b in es]
            rads = list(itertools.product((3e-5, 2e-4), repeat=len(es))) if len(es) <= 2 else [(3e-5, 2e-4, 3e-5, 2e-4), (2e-4, 2e-4, 3e-5, 3e-5)]
            for rad in rads:
                for flip in ((0,) * len(es), (1,) * len(es)):
                    st = [dict(a=(b if fl else a), b=(a if fl else b), n=nseg[i], r=rad[i] * lam) for i, ((a, b), fl) in enumerate(zip(es, flip))]
                    yield dict(env='ideal' if ground else 'free', f=f, lam=lam, pts=pts, st=st)
                    # frequency changed on the same object, both ways across the 1e-4 wavelength radius threshold
                    if len(es) <= 2 and not special and flip[0] == 0 and len(set(rad)) == len(es):
                        yield dict(env='ideal' if ground else 'free', f=f, lam=lam, pts=pts, st=st, refreq=4.0)
                        yield dict(env='ideal' if ground else 'free', f=f, lam=lam, pts=pts, st=st, refreq=0.25)
                        # ... and a second fill of the same object at the same frequency
                        yield dict(env='ideal' if ground else 'free', f=f, lam=lam, pts=pts, st=st, refreq=1.0)
    if tier == 'thorough':
        for ground in (False, True):
            P, f, lam = geom.lattice(seed, ground=ground, n=7)
            pts = [list(map(float, p)) for p in P]
            for es in geom.edge_sets_new(7, 3):
                nseg = [geom.auto_nseg(np.linalg.norm(P[a] - P[b]), 0.04 * lam, nmin=3) for a, b in es]
                yield dict(env='ideal' if ground else 'free', f=f, lam=lam, pts=pts,
                           st=[dict(a=a, b=b, n=nseg[i], r=(3e-5, 2e-4, 3e-5)[i] * lam) for i, (a, b) in enumerate(es)])
    # thick short-segment wires (segment = 8 radii) whose radius lies between 1e-4 wavelength of two frequencies: the matrix
    # is filled at one frequency and then, on the same object, at the other (both directions); free space and ground
    for env, z0 in (('free', 0.3), ('ideal', 0.0)):
        ws = [geom.wire([0., 0., z0], [0.02, 0.01, z0 + 0.32], 8, 0.005), geom.wire([0.02, 0.01, z0 + 0.32], [0.3, 0.12, z0 + 0.4], 7, 0.005),
              geom.wire([0.15, -0.1, z0 + 0.05], [0.15, -0.1, z0 + 0.37], 8, 0.004)]
        for f0, rf in ((5.0, 6.0), (30.0, 1. / 6)):
            yield dict(env=env, f=f0, lam=geom.C_MININEC / f0, wires=ws, name='thick-%s-f%g' % (env, f0), refreq=rf)
    # a thick tube (radius 0.01 wavelength, segments of 5 radii) next to and joined to thin wires (5e-5 wavelength): thin and
    # thick sources in one model, where the radius term of the kernel is large
    rot, sc, f_ = geom.variant(seed)
    lam_ = geom.C_MININEC / f_
    for env, z0 in (('free', 0.2), ('ideal', 0.0)):
        tube = geom.wire([0., 0., z0 * lam_], [0.02 * lam_, 0.01 * lam_, (z0 + 0.5) * lam_], 10, 0.01 * lam_)
        thin1 = geom.wire([0.3 * lam_, -0.1 * lam_, (z0 + 0.05) * lam_], [0.32 * lam_, 0.2 * lam_, (z0 + 0.3) * lam_], 8, 5e-5 * lam_)
        thin2 = geom.wire([0.02 * lam_, 0.01 * lam_, (z0 + 0.5) * lam_], [0.25 * lam_, 0.1 * lam_, (z0 + 0.62) * lam_], 6, 5e-5 * lam_)
        for nm, ws in (('beside', [tube, thin1]), ('joined', [tube, thin2]), ('joined-thin-first', [thin2, tube]), ('all', [thin1, tube, thin2])):
            yield dict(env=env, f=f_, lam=lam_, wires=ws, name='tube-%s-%s' % (nm, env))
    # one-segment stubs at the ends of a host wire (hat arms, end stubs), written from the free end inwards or outwards, listed
    # directly after the host / after each other / before it; thin and thick radius
    for env, z0 in (('free', 0.3), ('ideal', 0.1)):
        for rr in (3e-5, 2e-4):
            r_ = rr * lam_
            a_, b_ = np.array([0., 0., z0 * lam_]), np.array([0.02 * lam_, 0.01 * lam_, (z0 + 0.3) * lam_])
            sa, sb = a_ + np.array([0.04 * lam_, -0.02 * lam_, -0.01 * lam_]), b_ + np.array([-0.03 * lam_, 0.04 * lam_, 0.01 * lam_])
            sb2 = b_ + np.array([0.04 * lam_, 0.03 * lam_, 0.005 * lam_])
            host, hostr = geom.wire(a_, b_, 6, r_), geom.wire(b_, a_, 6, r_)
            for nm, ws in (('in-in', [host, geom.wire(sa, a_, 1, r_), geom.wire(sb, b_, 1, r_)]), ('out-out', [host, geom.wire(a_, sa, 1, r_), geom.wire(b_, sb, 1, r_)]),
                           ('in-out', [host, geom.wire(sb, b_, 1, r_), geom.wire(a_, sa, 1, r_)]), ('rev-in-in', [hostr, geom.wire(sb, b_, 1, r_), geom.wire(sa, a_, 1, r_)]),
                           ('hat-in', [host, geom.wire(sb, b_, 1, r_), geom.wire(sb2, b_, 1, r_)]), ('hat-out', [host, geom.wire(b_, sb, 1, r_), geom.wire(b_, sb2, 1, r_)]),
                           ('stubs-first', [geom.wire(sa, a_, 1, r_), geom.wire(sb, b_, 1, r_), host])):
                yield dict(env=env, f=f_, lam=lam_, wires=ws, name='stub-%s-%s-r%g' % (nm, env, rr))
    for c in c03._lean(tier, seed):
        yield dict(env='ideal', f=c['f'], lam=c['lam'], pts=c['pts'], st=c['st'], name=c['name'])
    for c in c03._perp(tier, seed):            # exactly perpendicular sloping wires over ground (and in free space)
        yield dict(env='ideal', f=c['f'], lam=c['lam'], pts=c['pts'], st=c['st'], name=c['name'])
        yield dict(env='free', f=c['f'], lam=c['lam'], pts=c['pts'], st=c['st'], name=c['name'])
    for c in c06.extras(tier, seed, thick=True):
        for i, ws in enumerate(c['descs']):
            yield dict(env=c['env'], f=c['f'], lam=c['lam'], wires=ws, name='%s#%d' % (c['extra'], i))


def evaluate(c):
    ground = c['env'] != 'free'
    if 'wires' in c:
        case = dict(f=c['f'], env=c['env'], wires=c['wires'])
        name = c['name']
    else:
        pts = [np.array(p) for p in c['pts']]
        case = dict(f=c['f'], env=c['env'], wires=[geom.wire(pts[e['a']], pts[e['b']], e['n'], e['r']) for e in c['st']])
        name = '%s%s|%s' % (c.get('name', ''), c['env'], [(e['a'], e['b'], e['n'], round(e['r'] / c['lam'], 6)) for e in c['st']])
        if ground:
            both = [w for w in case['wires'] if abs(w['p1'][2]) < 1e-9 and abs(w['p2'][2]) < 1e-9]
            if both:
                return dict(viol=[], skipped='both-ends-grounded', evals=0)
    try:
        m = geom.build(case)
    except ValueError as e:
        return dict(viol=[], skipped='rejected:' + str(e)[:30], evals=0)
    if len(m.pulses) == 0:
        return dict(viol=[], skipped='no-pulse', evals=0)
    m.compute_impedance_matrix()
    pgv = geom.pulse_geometry_violations(m)
    viol, worst, n, wn = [(a, '%s: %s' % (name, b)) for a, b in pgv[:3]], 0.0, 0, None
    canon, nontriv = [], []
    passes = [(name, '')]
    if c.get('refreq'):
        passes.append((name + '@f*%g' % c['refreq'], '-refreq'))
    for name, sfx in passes:
      if sfx:
        # the SAME object at another frequency: every radius changes its thin/thick class (1e-4 wavelength)
        if c['refreq'] != 1.0:
            m.f = c['f'] * c['refreq']
        m.compute_impedance_matrix()
      k = 2 * np.pi / m.wavelen
      srm = 1e-4 * m.wavelen
      viol_n, worst_n, n_n, wn_n = _compare(m, c, name, sfx, k, srm, ground, canon, nontriv)
      viol += viol_n
      n += n_n
      if worst_n > worst:
          worst, wn = worst_n, wn_n
    if n == 0:
        return dict(viol=[], skipped='no-separated-pair', evals=1)
    return dict(viol=viol[:6], canon=canon, nontriv=nontriv, trans=n, traces=n, evals=n, dev=worst, outcome=c['env'], note=dict(pair=wn, name=name))


def _compare(m, c, name, sfx, k, srm, ground, canon, nontriv):
    viol, worst, n, wn = [], 0.0, 0, None
    cen, seglen = [], []
    for p in m.pulses:
        cen.append(np.array(p.point, float))
        seglen.append(max(np.linalg.norm(np.array(p.ends[0], float) - p.point), np.linalg.norm(np.array(p.ends[1], float) - p.point)))
    for pm in m.pulses:
        for pn in m.pulses:
            if pm.idx == pn.idx:
                continue
            if np.linalg.norm(cen[pm.idx] - cen[pn.idx]) < 2.5 * max(seglen[pm.idx], seglen[pn.idx]):
                continue
            ref, mag = zref.entry(pm, pn, k, srm, ground)
            dev = abs(m.Z[pm.idx, pn.idx] - ref) / mag
            n += 1
            special = (pm.geo[0] is not pm.geo[1]) or (pn.geo[0] is not pn.geo[1]) or pm.ground.any() or pn.ground.any() or 'wires' in c
            canon.append('%s|%d,%d' % (name, pm.idx, pn.idx))
            nontriv.append(bool(special))
            if dev > worst:
                worst, wn = dev, (pm.idx, pn.idx)
            if not (dev <= 1e-4):
                kind = 'gnd' if (pn.ground.any() or pm.ground.any()) else ('junction' if (pm.geo[0] is not pm.geo[1] or pn.geo[0] is not pn.geo[1]) else 'interior')
                viol.append(('ZDEV-%s-%s%s' % (c['env'], kind, sfx), 'Z[%d,%d]=%s, formulation gives %s: deviation %.3g of the potential terms (%s)'
                             % (pm.idx, pn.idx, m.Z[pm.idx, pn.idx], ref, dev, name)))
    return viol, worst, n, wn
