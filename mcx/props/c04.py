"""C04 Near field equals the field of the solved currents and merges into the far field."""
import itertools, math
import numpy as np
from mcx import geom, obs
from mcx.ref import nfref, ffref
from mcx.props import c06

PID = 'C04'
CHUNK = 1
TOLERANCE = 'E and H within 1 % of the reference field at every point; E/H = 376.7 +- 0.5 %, radial < 3 % of the pattern level (the pulse/charge basis leaves a distance-independent radial residue of about (kL)^2/24, up to 1 % for lambda/17 segments, in the code AND in the reference); near vs far field 1 % (straight single wires) / 2 % (sub-alphabet) of the pattern maximum'
RULE = ('Lattice structures with <= D wires (generic and axis-aligned lattices, free space and ideal ground, both '
        'orientations: junctions in all end combinations, grounding at either end, unequal radii and segment lengths) '
        'and every description of the arc/helix/taper junction structures, one geometric source, power in {own, 1 W, '
        '100 W}; observation points: for every wire middle, junction and free end one point at {1, 1.5, 3} x max(L, '
        '0.01 lambda) along a generic transverse direction (points closer than that to any conductor dropped), plus '
        '6 directions at 100 and 1000 wavelengths. Each point: real compute_near_field vs the independent field of '
        'the solved pulse currents and charges. State = (structure, point); transition = one near-field request + '
        'one reference evaluation. Non-trivial: the structure has a junction, bend, grounded end or curved object.')
ASSUMPTIONS = ['observation points closer than max(1 segment, 0.01 lambda) are outside the enumeration (fixed 0.001 lambda finite difference of the code)',
               'far-region comparison with the far field uses the C10 sub-alphabet (>=4 segments per wire, L <= lambda/32)']

FARDIRS = [(20., 30.), (55., 110.), (80., 200.), (35., 290.), (70., 10.), (89., 150.)]


def bounds(tier, seed):
    return dict(max_wires=2 if tier == 'quick' else 3, variant=geom.variant(seed))


def cases(tier, seed):
    D = 2 if tier == 'quick' else 3
    for ground, special in ((False, False), (True, False), (False, True), (True, True)):
        P, f, lam = geom.lattice(seed, ground=ground, special=special)
        pts = [list(map(float, p)) for p in P]
        for es in geom.edge_sets(5, D):
            for fine in (False, True):
                if fine and (special or len(es) > 2):
                    continue
                if fine:
                    nseg = [max(4, int(math.ceil(np.linalg.norm(P[a] - P[b]) / (lam / 32.)))) for a, b in es]
                else:
                    nseg = [geom.auto_nseg(np.linalg.norm(P[a] - P[b]), 0.045 * lam) for a, b in es]
                rad = [2e-4 * lam, 3e-5 * lam, 2e-4 * lam]
                for flip in (0, 1):
                    if fine and flip:
                        continue
                    st = [dict(a=(b if flip else a), b=(a if flip else b), n=nseg[i], r=rad[i]) for i, (a, b) in enumerate(es)]
                    yield dict(env='ideal' if ground else 'free', f=f, lam=lam, pts=pts, st=st, fine=fine)
    for c in c06.extras(tier, seed):
        for i, ws in enumerate(c['descs']):
            yield dict(env=c['env'], f=c['f'], lam=c['lam'], wires=ws, srcs=c['srcs'], name='%s#%d' % (c['extra'], i), fine=False)


def obs_points(m, lam, ground):
    """points next to every wire middle, junction and free end"""
    segs = [(np.array(s.p1, float), np.array(s.p2, float)) for g in m.geo for s in g.segments]
    Lmax = max(np.linalg.norm(b - a) for a, b in segs)
    base = max(Lmax, 0.01 * lam)
    anchors = []
    for g in m.geo:
        ss = g.segments
        mid = ss[len(ss) // 2]
        anchors.append(((np.array(mid.p1) + np.array(mid.p2)) / 2, np.array(mid.dirvec, float)))
        anchors.append((np.array(ss[0].p1, float), np.array(ss[0].dirvec, float)))
        anchors.append((np.array(ss[-1].p2, float), np.array(ss[-1].dirvec, float)))
    pts = []
    gen = np.array([0.3, -0.5, 0.81])
    for X, d in anchors:
        t = np.cross(d, gen)
        if np.linalg.norm(t) < 0.2:
            t = np.cross(d, np.array([0.81, 0.3, -0.5]))
        t = t / np.linalg.norm(t)
        if ground and t[2] < 0:
            t = -t
        for fac in (1.0, 1.5, 3.0):
            p = X + t * fac * base * 1.02
            if ground and p[2] < 0.3 * base:
                continue
            dmin = min(geom.seg_seg_dist(p, p, a, b) for a, b in segs)
            if dmin < base:
                continue
            if not any(np.linalg.norm(p - q) < 1e-9 for q in pts):
                pts.append(p)
    return pts, base


def evaluate(c):
    from mcx.props.c06 import excitation
    ground = c['env'] != 'free'
    if 'wires' in c:
        case = dict(f=c['f'], env=c['env'], wires=c['wires'], sources=geom.rotate_voltages(c['srcs']))
        name = c['name']
        straight1 = False
    else:
        pts = [np.array(p) for p in c['pts']]
        case = dict(f=c['f'], env=c['env'], wires=[geom.wire(pts[e['a']], pts[e['b']], e['n'], e['r']) for e in c['st']])
        reason = geom.domain(case, c['lam'], ground=ground)
        if reason:
            return dict(viol=[], skipped='domain:' + reason, evals=0)
        srcs, loads = excitation(c)
        if srcs is None:
            return dict(viol=[], skipped='no-feed-position', evals=0)
        case['sources'] = geom.rotate_voltages(srcs)
        name = '%s|%s|fine=%s' % (c['env'], [(e['a'], e['b'], e['n']) for e in c['st']], c['fine'])
        straight1 = len(c['st']) == 1 and not ground
    lam = c['lam']
    try:
        m = geom.build(case)
    except ValueError as e:
        return dict(viol=[], skipped='rejected:' + str(e)[:30], evals=0)
    m.compute()
    if not (geom.input_power(m) > 0):
        return dict(viol=[], skipped='non-positive input power', evals=1)
    viol, canon, worst, wn = [], [], 0.0, None

    def chk(sig, x, tol, msg):
        nonlocal worst, wn
        if x / tol > worst:
            worst, wn = x / tol, sig
        if not (x <= tol):
            viol.append((sig, '%s: %s (%.3g > %.3g)' % (name, msg, x, tol)))
    # the reference takes the pulse table (point, far ends) from the model: that table itself is checked against the segment
    # tables of the objects (every pulse on a joint of the two segments it is reported with)
    for a_, b_ in geom.pulse_geometry_violations(m)[:3]:
        viol.append((a_, '%s: %s' % (name, b_)))
    pts, base = obs_points(m, lam, ground)
    powers = [None, 1.0, 100.0]
    n = 0
    for i, p in enumerate(pts):
        pw = powers[i % 3]
        E, H = obs.near(m, [p], pwr=pw)
        Er, Hr = nfref.fields(m, p, power=pw)
        n += 1
        chk('NF-E-' + c['env'], np.linalg.norm(E[0] - Er) / np.linalg.norm(Er), 0.01, 'E at %s (%.2f x max(L,0.01 lambda) from the conductors) differs from the field of the solved currents' % (np.round(p, 4), 1))
        chk('NF-H-' + c['env'], np.linalg.norm(H[0] - Hr) / np.linalg.norm(Hr), 0.01, 'H at %s differs from the field of the solved currents' % (np.round(p, 4),))
        canon.append('%s|pt%d' % (name, i))
    # time measurement switched on: same field for a requested power level
    if pts:
        import contextlib, io
        E0, H0 = obs.near(m, [pts[0]], pwr=100.0)
        m.do_timing = True
        try:
            with contextlib.redirect_stderr(io.StringIO()):
                E1, H1 = obs.near(m, [pts[0]], pwr=100.0)
        finally:
            m.do_timing = False
        n += 1
        chk('NF-TIMING', float(max(np.abs(E1[0] - E0[0]).max() / np.abs(E0[0]).max(), np.abs(H1[0] - H0[0]).max() / np.abs(H0[0]).max())), 1e-12,
            'near field for 100 W changes when time measurement is switched on')
    # far region
    cen = np.mean([np.array(s.p1, float) for g in m.geo for s in g.segments], axis=0)
    dirs = [d for d in FARDIRS if not ground or d[0] <= 85]
    ffcmp = c.get('fine') or straight1
    if ffcmp:
        fmax = 0.0
        for th in range(0, 181 if not ground else 91, 15):
            for ph in range(0, 360, 30):
                et, ep, _ = obs.far(m, (float(th), 1., 1), (float(ph), 1., 1), pwr=1.0, dist=1.0)
                fmax = max(fmax, abs(et[0, 0]), abs(ep[0, 0]))
    for R in (100., 1000.):
        rows = []
        for (th, ph) in dirs:
            t, f_ = math.radians(th), math.radians(ph)
            rh, tH, pH = ffref.unit_vectors(t, f_)
            p = rh * R * lam
            E, H = obs.near(m, [p], pwr=1.0)
            E, H = E[0], H[0]
            n += 1
            Er, Hr = nfref.fields(m, p, power=1.0)
            rows.append((th, ph, rh, tH, pH, E, H, Er, Hr))
            canon.append('%s|far%g|%g,%g' % (name, R, th, ph))
        # level of the pattern at this distance: the largest transverse field of the six directions
        lvlE = max(np.linalg.norm(E - (E @ rh) * rh) for (th, ph, rh, tH, pH, E, H, Er, Hr) in rows)
        lvlH = max(np.linalg.norm(H - (H @ rh) * rh) for (th, ph, rh, tH, pH, E, H, Er, Hr) in rows)
        for (th, ph, rh, tH, pH, E, H, Er, Hr) in rows:
            chk('FARPT-E-' + c['env'], np.linalg.norm(E - Er) / lvlE, 0.01, 'E at %g lambda differs from the field of the solved currents' % R)
            chk('FARPT-H-' + c['env'], np.linalg.norm(H - Hr) / lvlH, 0.01, 'H at %g lambda differs from the field of the solved currents' % R)
            Et = E - (E @ rh) * rh
            Ht = H - (H @ rh) * rh
            if ffcmp:
                et, ep, _ = obs.far(m, (th, 1., 1), (ph, 1., 1), pwr=1.0, dist=R * lam)
                ph_f = np.exp(-1j * 2 * np.pi * R)
                d = max(abs(E @ tH - et[0, 0] * ph_f), abs(E @ pH - ep[0, 0] * ph_f)) / (fmax / (R * lam))
                chk('NEAR-VS-FAR-' + c['env'], d, 0.01 if straight1 else 0.02, 'near field at %g lambda, direction (%g,%g) differs from the far field of the same power and distance' % (R, th, ph))
            # radial components relative to the pattern level; impedance ratio where the field is not in a null
            chk('RADIAL-E', abs(E @ rh) / lvlE, 0.03, 'radial E component at %g lambda, direction (%g,%g)' % (R, th, ph))
            chk('RADIAL-H', abs(H @ rh) / lvlH, 0.03, 'radial H component at %g lambda, direction (%g,%g)' % (R, th, ph))
            if np.linalg.norm(Et) > 0.2 * lvlE:
                chk('E-OVER-H', abs(np.linalg.norm(Et) / np.linalg.norm(Ht) - 376.7) / 376.7, 0.005, '|E|/|H| = %.2f at %g lambda' % (np.linalg.norm(Et) / np.linalg.norm(Ht), R))
    special = ground or 'wires' in c or geom.junction_degree(case) >= 2
    return dict(viol=viol[:8], canon=canon, nontriv=bool(special), trans=2 * n, traces=n, evals=n, dev=worst,
                outcome='%s,ff=%s' % (c['env'], bool(ffcmp)), note=dict(worst=wn, name=name, npts=len(pts)))
