"""C13 Segmentation tiles each object; tapers, arcs, helices, transforms as documented."""
import itertools, math
import numpy as np
from mcx import geom, cli
from mcx.ref import segref

PID = 'C13'
CHUNK = 2
TOLERANCE = 'chain closure / reference positions 1e-12..1e-9 of the object size (absolute); taper growth <= 2.1'
RULE = ('Equal wires: n in NSET x 5 lengths x 3 oblique directions. Tapered wires: n in NSET(>=2) x lengths '
        '{0.25,1,7,31,1000} x radii {1e-5,1e-3,0.01L,0.3L} x ends {1,2,both} x 7 (min,max) combinations - every '
        'combination the constructor accepts (assertion rejections and documented fall-backs to equal segments counted '
        'separately). Arcs: 3 radii x 18 angle pairs (negative, >180 deg spans) x n = 3..64,100,122,197,200 (thorough 3..200). Helices: +-length x +-turn length x '
        '4 radius sets x n. Transformations through main(): all sequences of <=2 (thorough 3) from {3 rotations, '
        'translation, scale} x tagged/untagged on wire, tapered wire, arc and helix, against the harness composition. '
        'NSET quick = {1..12,17,33,64,100,200}, thorough = 1..200. State = (object kind, parameters); transition = one '
        'construction. Non-trivial: n >= 2.')
ASSUMPTIONS = ['arc and helix formulas are taken from README (Arc / Helix or Spiral)',
               'taper contract: growth <= 2.1, >= max(2.5 r, min), <= max, monotone from the tapered end, mirror for the other end']


def nset(tier):
    return (list(range(1, 13)) + [17, 33, 64, 100, 200]) if tier == 'quick' else list(range(1, 201))


RULE = RULE + ' Transformation sequences of depth <=2 are also applied to 1- and 2-segment wires, 2- and 3-segment helices and a 3-segment arc.'
RULE = RULE + ' Four wires x 6 explicit/automatic tag patterns x each explicit tag as the target of each menu transformation.'


def bounds(tier, seed):
    return dict(n=nset(tier), variant=geom.variant(seed))


MINMAX = [(None, None), (0.01, None), (None, 0.2), (0.01, 0.2), (0.05, 0.06), (0.0, None), (0.002, 0.5)]
ANGS = [(0., 90.), (0., 360.), (30., -100.), (-45., 45.), (10., 200.), (350., 20.), (-170., 190.), (90., 0.), (0., 1.), (123.4, 321.), (-360., 0.), (180., 0.),
        (30., 150.), (200., -20.), (0., 180.), (10., 100.), (0.1, 0.7), (-33.3, 271.)]


def cases(tier, seed):
    ns = nset(tier)
    rot, sc, f = geom.variant(seed)
    R = geom.rotmat(rot)
    dirs = [R @ (np.array(d) / np.linalg.norm(d)) for d in ([1., 0., 0.], [0.3, -0.5, 0.81], [0., 0., 1.])]
    for L in (0.25, 1., 7., 31., 1000.):
        for d in dirs:
            yield dict(kind='equal', L=L, dir=list(d), ns=ns, org=[3.5, -2.25, 1000.125])
    for L in (0.25, 1., 7., 31., 1000.):
        for r in (1e-5, 1e-3, 0.01 * L, 0.3 * L):
            for tt in (1, 2, 3):
                yield dict(kind='taper', L=L, r=r, tt=tt, dir=list(dirs[1]), ns=[n for n in ns if n >= 2], org=[3.5, -2.25, 1000.125])
    for radius in (0.05, 1., 300.):
        for a in ANGS:
            yield dict(kind='arc', radius=radius, ang=list(a), ns=(list(range(3, 65)) + [100, 122, 197, 200]) if tier == 'quick' else list(range(3, 201)))
    for sl, st in itertools.product((1, -1), repeat=2):
        for radii in ([0.1, 0.1], [0.1, 0.3], [0.1, 0.1, 0.02, 0.02], [0.2, 0.1, 0.05, 0.3]):
            for length, turn in ((1.12, 0.15), (0.3, 0.3), (0.5, 2.0)):
                yield dict(kind='helix', length=sl * length, turn=st * turn, radii=radii, ns=[n for n in ns if n <= 100])
    # objects built through the API from Python integers (coordinates, radius as float) and transformed through the container
    for op in ('rotate', 'translate-int', 'translate-float', 'scale', 'rotate+translate+scale'):
        for tagged in (False, True):
            yield dict(kind='apiint', op=op, tagged=tagged)
    # transformations through main()
    menu = [('rotate', [17., -33., 71.]), ('rotate', [90., 0., 0.]), ('rotate', [0., 180., 45.]), ('translate', [1.5, -2., 0.25]), ('scale', 10.), ('scale', 0.3)]
    depth = 2 if tier == 'quick' else 3
    objs = ['wire', 'taper1', 'taper3', 'arc', 'helix']
    for o in objs:
        for k in range(1, depth + 1):
            for seq in itertools.product(range(len(menu)), repeat=k):
                # every pattern of tagged / untagged options within one sequence (an untagged option after a tagged one
                # must still act on everything)
                for tagged in itertools.product((False, True), repeat=k):
                    # sort keys 1,2,3 / 3,2,1 and keys whose numeric order differs from their order as text (2, 10, 100)
                    for keys in ('asc', 'desc', 'asc10', 'desc10'):
                        if k == 1 and keys != 'asc':
                            continue
                        yield dict(kind='xform', obj=o, seq=[menu[i] for i in seq], tagged=list(tagged), keys=keys)
    # explicit tags that are not 1..k mixed with untagged objects: a transformation addressed to an explicit tag moves the object
    # carrying it and nothing else
    for pattern in ((4, None, None, None), (None, 5, None, None), (7, None, 2, None), (None, None, None, 3), (2, None, 9, None), (3, 1, None, None)):
        for ti in range(4):
            if pattern[ti] is None:
                continue
            for mi in range(len(menu)):
                yield dict(kind='tagxf', pattern=list(pattern), target=ti, op=menu[mi])
    # objects with the smallest segment counts (1..3 segments: 2..4 segment ends, a 3 x 3 coordinate array among them)
    for o in ('wire1', 'wire2', 'helix2', 'helix3', 'arc3'):
        for k in (1, 2):
            for seq in itertools.product(range(len(menu)), repeat=k):
                for tagged in ((False,) * k, (True,) * k):
                    yield dict(kind='xform', obj=o, seq=[menu[i] for i in seq], tagged=list(tagged), keys='asc')


def seg_arrays(g):
    P1 = np.array([s.p1 for s in g.segments], float)
    P2 = np.array([s.p2 for s in g.segments], float)
    return P1, P2


def generic(g, n, p1, p2, size, viol, tag):
    """n segments, positive lengths, chained from p1 to p2, Segment length/direction consistent"""
    if len(g.segments) != n:
        viol.append(('COUNT', '%s: %d segments, requested %d' % (tag, len(g.segments), n)))
        return False
    P1, P2 = seg_arrays(g)
    lens = np.linalg.norm(P2 - P1, axis=1)
    if (lens <= 0).any():
        viol.append(('NONPOSITIVE', '%s: segment length %g' % (tag, lens.min())))
    tol = 1e-12 * size
    gap = max(np.linalg.norm(P1[0] - p1), np.linalg.norm(P2[-1] - p2), np.abs(P2[:-1] - P1[1:]).max() if n > 1 else 0.0)
    if gap > tol:
        viol.append(('CHAIN', '%s: chain p1->p2 open by %.3g (object size %g)' % (tag, gap, size)))
    sl = np.array([s.seg_len for s in g.segments])
    dv = np.array([s.dirvec for s in g.segments])
    if np.abs(sl - lens).max() > 1e-9 * size:
        viol.append(('SEGLEN', '%s: Segment.seg_len differs from |p2-p1| by %.3g' % (tag, np.abs(sl - lens).max())))
    if np.abs(dv - (P2 - P1) / lens[:, None]).max() > 1e-6:
        viol.append(('DIRVEC', '%s: Segment.dirvec is not the unit vector p1->p2' % tag))
    return True


def build1(obj, f=10.0):
    import mininec.mininec as mm
    return mm.Mininec(f, [obj])


def evaluate(c):
    import mininec.mininec as mm
    viol, canon, nontriv = [], [], []
    skips = {}
    k = c['kind']
    ev = 0
    if k == 'equal':
        org, d = np.array(c['org']), np.array(c['dir'])
        for n in c['ns']:
            p1, p2 = org, org + d * c['L']
            w = mm.Wire(n, *p1, *p2, 1e-6 * c['L'])
            build1(w)
            ev += 1
            size = c['L']
            tag = 'equal L=%g n=%d' % (c['L'], n)
            if generic(w, n, p1, p2, max(size, 1.0) if False else size + 0 * 1, viol, tag):
                P1, P2 = seg_arrays(w)
                ref = segref.equal_ends(p1, p2, n)
                # positions are absolute in units of the wire length; coordinates ~1e3 carry 1e-13 rounding
                if max(np.abs(P1 - ref[:-1]).max(), np.abs(P2 - ref[1:]).max()) > 1e-12 * max(size, np.abs(ref).max()):
                    viol.append(('EQUAL-POS', '%s: segment ends off the equal division' % tag))
                lens = np.linalg.norm(P2 - P1, axis=1)
                if np.abs(lens - c['L'] / n).max() > 1e-12 * max(size, np.abs(ref).max()):
                    viol.append(('EQUAL-LEN', '%s: lengths differ from L/n by %.3g' % (tag, np.abs(lens - c['L'] / n).max())))
            canon.append('eq|%g|%d' % (c['L'], n))
            nontriv.append(n >= 2)
    elif k == 'taper':
        org, d, L, r, tt = np.array(c['org']), np.array(c['dir']), c['L'], c['r'], c['tt']
        p1, p2 = org, org + d * L
        for n in c['ns']:
            for mn, mx in MINMAX:
                tmin = None if mn is None else mn * L
                tmax = None if mx is None else mx * L
                w = mm.Wire(n, *p1, *p2, r)
                w.segtype = tt
                w.taper_min, w.taper_max = tmin, tmax
                ev += 1
                try:
                    build1(w)
                except (AssertionError, ValueError):
                    skips['taper-rejected(contradictory limits)'] = skips.get('taper-rejected(contradictory limits)', 0) + 1
                    continue
                tag = 'taper%d L=%g r=%g n=%d min=%s max=%s' % (tt, L, r, n, tmin, tmax)
                canon.append('tp|%d|%g|%g|%d|%s|%s' % (tt, L, r, n, mn, mx))
                nontriv.append(True)
                size = max(L, np.abs(p2).max())
                if not generic(w, n, p1, p2, size, viol, tag):
                    continue
                P1, P2 = seg_arrays(w)
                lens = np.linalg.norm(P2 - P1, axis=1)
                # collinear
                off = np.linalg.norm(np.cross(P2 - p1, d), axis=1).max()
                if off > 1e-12 * size:
                    viol.append(('COLLINEAR', '%s: segment ends %.3g off the wire axis' % (tag, off)))
                if w.segtype == 0:
                    skips['taper-fallback-to-equal'] = skips.get('taper-fallback-to-equal', 0) + 1
                    if np.abs(lens - L / n).max() > 1e-12 * size:
                        viol.append(('FALLBACK', '%s: fall-back is not the equal segmentation' % tag))
                    continue
                for sig, msg in segref.taper_invariants(lens, L, r, tt, tmin, tmax, 1e-9 * L):
                    viol.append((sig, tag + ': ' + msg))
                if tt == 2:
                    # mirror of the end-1 taper of the same wire
                    w1 = mm.Wire(n, *p1, *p2, r)
                    w1.segtype = 1
                    w1.taper_min, w1.taper_max = tmin, tmax
                    try:
                        build1(w1)
                        if w1.segtype == 1:
                            l1 = np.array([s.seg_len for s in w1.segments])
                            if np.abs(l1[::-1] - lens).max() > 1e-11 * size:
                                viol.append(('TAPER-MIRROR', '%s: end-2 taper is not the mirror of the end-1 taper (%.3g)' % (tag, np.abs(l1[::-1] - lens).max())))
                    except (AssertionError, ValueError):
                        viol.append(('TAPER-MIRROR', '%s: accepted for end 2 but rejected for end 1' % tag))
    elif k == 'arc':
        a1, a2 = c['ang']
        for n in c['ns']:
            try:
                g = mm.Arc(n, c['radius'], a1, a2, 1e-4 * c['radius'])
            except ValueError:
                skips['arc-rejected'] = skips.get('arc-rejected', 0) + 1
                continue
            build1(g)
            ev += 1
            ref = segref.arc_ends(n, c['radius'], a1, a2)
            tag = 'arc R=%g %g..%g n=%d' % (c['radius'], a1, a2, n)
            if generic(g, n, ref[0], ref[-1], c['radius'], viol, tag):
                P1, P2 = seg_arrays(g)
                dev = max(np.abs(P1 - ref[:-1]).max(), np.abs(P2 - ref[1:]).max())
                if dev > 1e-9 * c['radius']:
                    viol.append(('ARC-POS', '%s: segment ends %.3g off the documented circle positions' % (tag, dev)))
            canon.append('arc|%g|%g|%g|%d' % (c['radius'], a1, a2, n))
            nontriv.append(True)
    elif k == 'helix':
        for n in c['ns']:
            try:
                g = mm.Helix(n, c['length'], c['turn'], 1e-4, *c['radii'])
            except ValueError:
                skips['helix-rejected'] = skips.get('helix-rejected', 0) + 1
                continue
            build1(g)
            ev += 1
            ref = segref.helix_ends(n, c['length'], c['turn'], *c['radii'])
            tag = 'helix l=%g t=%g %s n=%d' % (c['length'], c['turn'], c['radii'], n)
            size = max(abs(c['length']), max(c['radii']))
            if generic(g, n, ref[0], ref[-1], size, viol, tag):
                P1, P2 = seg_arrays(g)
                dev = max(np.abs(P1 - ref[:-1]).max(), np.abs(P2 - ref[1:]).max())
                if dev > 1e-9 * size:
                    viol.append(('HELIX-POS', '%s: segment ends %.3g off the documented helix positions' % (tag, dev)))
            canon.append('hx|%g|%g|%s|%d' % (c['length'], c['turn'], c['radii'], n))
            nontriv.append(True)
    elif k == 'apiint':
        ev += 1
        geo = mm.Geo_Container()
        w1 = mm.Wire(4, 1, 2, 3, 4, -1, 2, 0.01, tag=1)
        w2 = mm.Wire(3, 4, -1, 2, 7, 0, 5, 0.02, tag=2)
        geo.append(w1)
        geo.append(w2)
        geo.compute_tags()
        ends0 = [np.array([[1., 2., 3.], [4., -1., 2.]]), np.array([[4., -1., 2.], [7., 0., 5.]])]
        tg = 2 if c['tagged'] else None
        R, t, sc_ = np.eye(3), np.zeros(3), 1.0
        if 'rotate' in c['op']:
            geo.rotate(1, np.array([17., -33., 71.]), tg)
            R = geom.rotmat([17., -33., 71.])
        if 'translate-int' in c['op']:
            geo.translate(2, np.array([2, -1, 3]), tg)
            t = np.array([2., -1., 3.])
        if 'translate-float' in c['op'] or '+translate' in c['op']:
            geo.translate(2, np.array([0.25, -1.5, 3.125]), tg)
            t = np.array([0.25, -1.5, 3.125])
        if 'scale' in c['op']:
            geo.scale(0.5, tg)
            sc_ = 0.5
        m = mm.Mininec(10.0, geo)
        for gi, g in enumerate(m.geo):
            moved = (gi == 1) or not c['tagged']
            e = ends0[gi]
            exp = sc_ * (e @ R.T + t) if moved else e
            n_ = g.n_segments
            want = np.array([exp[0] + (exp[1] - exp[0]) * i / n_ for i in range(n_ + 1)])
            got = np.array([g.segments[0].p1] + [sg.p2 for sg in g.segments], float)
            dev = float(np.abs(got - want).max())
            if dev > 1e-9 * max(1.0, np.abs(want).max()):
                viol.append(('API-INT', 'wire %d built from integer coordinates, %s%s through the container: segment ends deviate %.3g (first end %s, expected %s)'
                             % (gi + 1, c['op'], ' by tag' if c['tagged'] else '', dev, got[0], want[0])))
            er = (0.01, 0.02)[gi] * (sc_ if moved else 1.0)
            if abs(g.r - er) > 1e-12:
                viol.append(('API-INT-RADIUS', 'wire %d: radius %g expected %g after %s' % (gi + 1, g.r, er, c['op'])))
        canon.append('apiint|%s|%s' % (c['op'], c['tagged']))
        nontriv.append(True)
    elif k == 'tagxf':
        ev += 1
        pat, ti, (kind, val) = c['pattern'], c['target'], c['op']
        ws = [dict(kind='wire', p1=[float(i), 0.2 * i, 1.0 + i], p2=[float(i) + 0.8, 0.2 * i + 0.3, 1.5 + i], n=3 + i, r=1e-3 * (i + 1), tag=pat[i]) for i in range(4)]
        tr = [['scale', val, pat[ti]]] if kind == 'scale' else [[kind, 1.0, val, pat[ti]]]
        ma, d0 = cli.build_main(cli.argv(dict(f=10.0, env='free', wires=ws), ['--excitation-pulse=1']))
        mb, d1 = cli.build_main(cli.argv(dict(f=10.0, env='free', wires=ws, transforms=tr), ['--excitation-pulse=1']))
        if ma is None or mb is None:
            viol.append(('TAGXF-REJECTED', 'tags %s, %s by tag %s: %s / %s' % (pat, kind, pat[ti], d0, d1)))
        else:
            # objects identified by their segment count (3, 4, 5, 6), not by the tag bookkeeping
            for n_ in range(3, 7):
                ga = [g for g in ma.geo if len(g.segments) == n_][0]
                gb = [g for g in mb.geo if len(g.segments) == n_][0]
                A1, A2 = seg_arrays(ga)
                B1, B2 = seg_arrays(gb)
                if n_ - 3 == ti:
                    if kind == 'rotate':
                        Rm = geom.rotmat(val)
                        A1, A2 = A1 @ Rm.T, A2 @ Rm.T
                    elif kind == 'translate':
                        A1, A2 = A1 + np.array(val), A2 + np.array(val)
                    else:
                        A1, A2 = A1 * val, A2 * val
                dev = max(np.abs(B1 - A1).max(), np.abs(B2 - A2).max())
                if dev > 1e-9 * max(1.0, np.abs(A1).max()):
                    viol.append(('TAGXF-' + ('TARGET' if n_ - 3 == ti else 'OTHER'), 'tags %s, %s %s addressed to tag %s: wire %d (%s) is off by %.3g'
                                 % (pat, kind, val, pat[ti], n_ - 2, 'the tagged one' if n_ - 3 == ti else 'not addressed', dev)))
            tags = sorted(g.tag for g in mb.geo)
            if len(set(tags)) != 4:
                viol.append(('TAGXF-TAGS', 'tags %s: objects carry tags %s' % (pat, tags)))
        canon.append('tagxf|%s|%d|%s' % (pat, ti, c['op']))
        nontriv.append(True)
    elif k == 'xform':
        ev += 2
        o = c['obj']
        objs = {
            'wire': dict(kind='wire', p1=[0.1, 0.2, 0.3], p2=[1.3, -0.4, 0.9], n=5, r=1e-3),
            'taper1': dict(kind='wire', p1=[0.1, 0.2, 0.3], p2=[1.3, -0.4, 0.9], n=10, r=1e-3, taper=[1]),
            'taper3': dict(kind='wire', p1=[0.1, 0.2, 0.3], p2=[1.3, -0.4, 0.9], n=10, r=2e-3, taper=[3]),
            'arc': dict(kind='arc', n=6, radius=0.7, ang1=20., ang2=250., r=1e-3),
            'helix': dict(kind='helix', n=12, length=-0.8, turnlen=0.3, r=1e-3, radii=[0.2, 0.1, 0.05, 0.15]),
            'wire1': dict(kind='wire', p1=[0.1, 0.2, 0.3], p2=[0.5, -0.1, 0.6], n=1, r=1e-3),
            'wire2': dict(kind='wire', p1=[0.1, 0.2, 0.3], p2=[0.9, -0.2, 0.7], n=2, r=1e-3),
            'helix2': dict(kind='helix', n=2, length=0.1, turnlen=0.2, r=1e-3, radii=[0.05, 0.04]),
            'helix3': dict(kind='helix', n=3, length=0.15, turnlen=0.2, r=1e-3, radii=[0.05, 0.04, 0.03, 0.06]),
            'arc3': dict(kind='arc', n=3, radius=0.4, ang1=10., ang2=150., r=1e-3),
        }
        base = dict(f=10.0, env='free', wires=[dict(kind='wire', p1=[5., 5., 5.], p2=[5., 5., 6.], n=2, r=1e-3), objs[o]])
        seq = c['seq']
        keys = list(range(1, len(seq) + 1)) if not c['keys'].endswith('10') else [2, 10, 100, 1.5][:len(seq)]
        if c['keys'].startswith('desc'):
            keys = keys[::-1]
        tr = []
        tg = c['tagged'] if isinstance(c['tagged'], list) else [c['tagged']] * len(seq)
        for (kind, val), key, tgd in zip(seq, keys, tg):
            if kind == 'scale':
                tr.append(['scale', val] + ([2] if tgd else []))
            else:
                tr.append([kind, float(key), val] + ([2] if tgd else []))
        ma, d0 = cli.build_main(cli.argv(base, ['--excitation-pulse=1']))
        mb, d1 = cli.build_main(cli.argv(dict(base, transforms=tr), ['--excitation-pulse=1']))
        if ma is None or mb is None:
            viol.append(('XFORM-REJECTED', '%s / %s' % (d0, d1)))
        else:
            for gi, (ga, gb) in enumerate(zip(ma.geo, mb.geo)):
                # harness composition per object: the options that apply to it (untagged ones, and tagged ones on
                # object 2), rotations / translations in key order, scaling last
                R, t, s = np.eye(3), np.zeros(3), 1.0
                mine = [(kv, key) for kv, key, tgd in zip(seq, keys, tg) if gi == 1 or not tgd]
                for (kind, val), key in sorted(mine, key=lambda x: x[1]):
                    if kind == 'rotate':
                        Rm = geom.rotmat(val)
                        R, t = Rm @ R, Rm @ t
                    elif kind == 'translate':
                        t = t + np.array(val)
                for (kind, val), key in mine:
                    if kind == 'scale':
                        s *= val
                A1, A2 = seg_arrays(ga)
                B1, B2 = seg_arrays(gb)
                moved = bool(mine)
                if moved:
                    E1, E2 = s * (A1 @ R.T + t), s * (A2 @ R.T + t)
                    er = ga.r * s
                else:
                    E1, E2, er = A1, A2, ga.r
                size = max(1.0, np.abs(E1).max())
                if B1.shape != E1.shape:
                    viol.append(('XFORM-COUNT', '%s %s: %d segments after the transformation, %d before' % (o, tr, len(B1), len(A1))))
                    continue
                dev = max(np.abs(B1 - E1).max(), np.abs(B2 - E2).max())
                if dev > 1e-9 * size:
                    viol.append(('XFORM-POS-%s' % ('scale' if s != 1 else 'rigid'),
                                 '%s object %d: segment ends deviate %.3g from the harness composition for %s' % (o, gi, dev, tr)))
                if abs(gb.r - er) > 1e-12 * er:
                    viol.append(('XFORM-RADIUS', '%s object %d: radius %g expected %g for %s' % (o, gi, gb.r, er, tr)))
                # rotations preserve all pairwise distances
                if moved and s == 1.0:
                    da = np.linalg.norm(A1[:, None, :] - A2[None, :, :], axis=2)
                    db = np.linalg.norm(B1[:, None, :] - B2[None, :, :], axis=2)
                    if np.abs(da - db).max() > 1e-9 * size:
                        viol.append(('XFORM-DIST', '%s: pairwise distances change under rigid motion %s' % (o, tr)))
        canon.append('xf|%s|%s|%s|%s' % (o, seq, c['tagged'], c['keys']))
        nontriv.append(True)
    return dict(viol=viol[:8], canon=canon, nontriv=nontriv, trans=ev, traces=len(canon), evals=ev, outcome=k, dev=0.0, skips=skips)
