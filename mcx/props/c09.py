"""C09 Kirchhoff current law and end conditions in the current report."""
import itertools
import numpy as np
from mcx import geom
from mcx.ref import topo, report

PID = 'C09'
PRINT_ABS = 7.1e-7      # values between 0.1 and 1 are printed with six decimals: 5e-7 per real/imaginary part


def pfloor(imax):
    """absolute print-precision floor: only currents of 0.05 A and more can fall into the six-decimal range"""
    return PRINT_ABS if imax >= 0.05 else 0.0
CHUNK = 4
TOLERANCE = 'sum of junction J lines <= 1e-6*k*max|J| + k*7e-7 (print precision); J vs pulse-current sum 2e-6*max|I| + 7e-7'
RULE = ('Stars of k=2..4 (thorough: 5) spokes on a hub in EVERY orientation (2^k) and order (k!), and all directed '
        'descriptions of all simple graphs with <=3 (thorough 4) wires on the 5-point lattice (chains, stars, triangles, '
        'quadrilaterals, second junctions), free space and with one or two grounded ends, plus every orientation with each '
        'wire in turn described elsewhere and moved into place by a per-tag --geo-translate through main(); the model is solved and the '
        'CURRENT DATA block of the report is parsed. Oracle from the harness\' own end clustering: J lines signed into '
        'each junction sum to zero, free ends print E with zeros, each J equals the orientation-signed sum of the '
        'solved pulse currents on that end half-segment. State = undirected structure; transition = one description. '
        'Non-trivial: a junction with >=2 ends exists.')
ASSUMPTIONS = ['report parser keyed on the E/J/number first token of each row of the block of each object']


RULE = RULE + " Extras include junctions just above the ground plane (higher than 1/1000 of the shortest segment, lower than 1/1000 of the long wire's segments)."
RULE = RULE + ' In the extras the ends named by the report are checked against the ends of the description (wire points, arc angles); clockwise arcs with a wire on one end.'


def bounds(tier, seed):
    return dict(star_k=4 if tier == 'quick' else 5, graph_wires=3 if tier == 'quick' else 4, variant=geom.variant(seed))


def _desc(es, n_of):
    k = len(es)
    for order in itertools.permutations(range(k)):
        for flips in itertools.product((0, 1), repeat=k):
            yield [(es[i][1], es[i][0], n_of(i)) if flips[j] else (es[i][0], es[i][1], n_of(i)) for j, i in enumerate(order)]


def cases(tier, seed):
    yield from extra_cases(seed)
    for ground in (False, True):
        P, f, lam = geom.lattice(seed, ground=ground)
        pts = [list(map(float, p)) for p in P]
        env = 'ideal' if ground else 'free'
        D = 3 if tier == 'quick' else 4
        for es in geom.edge_sets(5, D):
            if not any(len(set(a) & set(b)) for a, b in itertools.combinations(es, 2)) and len(es) > 1:
                continue   # no junction at all
            segs = [2, 3, 2, 1]
            for w in _desc(es, lambda i: segs[i]):
                yield dict(env=env, f=f, pts=pts, wires=w, src=es[0])
            # each wire in turn described elsewhere (far away / with an end on another wire's far end) and brought
            # into place by a per-tag --geo-translate through main(); every orientation, listing order as enumerated
            if len(es) >= 2:
                used = sorted(set(v for e in es for v in e))
                for flips in itertools.product((0, 1), repeat=len(es)):
                    w = [(es[i][1], es[i][0], segs[i]) if flips[i] else (es[i][0], es[i][1], segs[i]) for i in range(len(es))]
                    for k in range(len(es)):
                        ds = [[3 * lam, 2 * lam, 0. if ground else -lam]]
                        for q in used:
                            for e in (0, 1):
                                if q not in w[k][:2] and abs(pts[q][2] - pts[w[k][e]][2]) < 1e-12:
                                    ds.append(list(np.array(pts[w[k][e]]) - np.array(pts[q])))
                        for d in ds:
                            yield dict(env=env, f=f, pts=pts, wires=w, src=es[0], moved=dict(wire=k, d=d))
    if tier == 'thorough':
        for ground in (False, True):
            P, f, lam = geom.lattice(seed, ground=ground, n=7)
            pts = [list(map(float, p)) for p in P]
            for es in geom.edge_sets_new(7, 3):
                if not any(len(set(a) & set(b)) for a, b in itertools.combinations(es, 2)) and len(es) > 1:
                    continue
                for w in _desc(es, lambda i: [2, 3, 2][i]):
                    yield dict(env='ideal' if ground else 'free', f=f, pts=pts, wires=w, src=es[0])
    # stars on the 7-point lattice, hub = point 4 (free) / point 2 (ground, elevated)
    for ground in (False, True):
        P, f, lam = geom.lattice(seed, ground=ground, n=7)
        pts = [list(map(float, p)) for p in P]
        env = 'ideal' if ground else 'free'
        hub = 2 if ground else 4
        others = [i for i in range(7) if i != hub]
        kmax = 4 if tier == 'quick' else 5
        for k in range(3, kmax + 1):
            combos = list(itertools.combinations(others, k))
            if tier == 'quick':
                combos = combos[:2]
            for spokes in combos:
                es = [(hub, s) for s in spokes]
                if ground and sum(1 for s in spokes if abs(pts[s][2]) < 1e-12) > 2:
                    continue
                for w in _desc(es, lambda i: 2 if i else 3):
                    yield dict(env=env, f=f, pts=pts, wires=w, src=es[0])


def extra_cases(seed):
    """closed loops made of two objects (wire + half-circle arc, two half circles in both orientations), a closed arc
    with a tail, an arc joined to two wires"""
    rot, sc, f = geom.variant(seed)
    lam = geom.C_MININEC / f
    R, r = 0.06 * lam, 1e-4 * lam
    w = geom.wire([R, 0., 0.], [-R, 0., 0.], 4, r)
    wr = geom.wire([-R, 0., 0.], [R, 0., 0.], 4, r)
    h1 = dict(kind='arc', n=5, radius=R, ang1=0., ang2=180., r=r)
    h1r = dict(kind='arc', n=5, radius=R, ang1=180., ang2=0., r=r)
    h2 = dict(kind='arc', n=5, radius=R, ang1=180., ang2=360., r=r)
    h2r = dict(kind='arc', n=5, radius=R, ang1=360., ang2=180., r=r)
    loop = dict(kind='arc', n=6, radius=R, ang1=0., ang2=360., r=r)
    tail = geom.wire([R, 0., 0.], [R + 0.05 * lam, 0.04 * lam, 0.01 * lam], 3, r)
    for name, objs in (('D-loop', [w, h1]), ('D-loop-rev', [wr, h1]), ('D-loop-arc-first', [h1, w]), ('D-loop-arc-rev', [w, h1r]),
                       ('two-half-arcs', [h1, h2]), ('two-half-arcs-rev', [h1, h2r]), ('two-half-arcs-rev1', [h1r, h2]),
                       ('closed-arc-tail', [loop, tail]), ('arc-two-wires', [h1, tail, geom.wire([-R, 0., 0.], [-R - 0.04 * lam, 0.03 * lam, -0.02 * lam], 2, r)]),
                       # arcs described clockwise (first angle larger) and counter-clockwise with a wire on ONE end only
                       ('cw-arc-tail-at-end2', [h1r, tail]), ('tail+cw-arc', [tail, h1r]), ('ccw-arc-tail-at-end1', [h1, tail]),
                       ('cw-arc-tail-at-end1', [dict(kind='arc', n=5, radius=R, ang1=120., ang2=0., r=r), tail]),
                       ('cw-arc-120-30-tail', [dict(kind='arc', n=6, radius=R, ang1=120., ang2=30., r=r),
                                               geom.wire([R * np.cos(np.radians(120.)), 0., R * np.sin(np.radians(120.))], [2 * R * np.cos(np.radians(120.)), 0.01 * lam, 2 * R * np.sin(np.radians(120.))], 5, r)])):
        yield dict(extra=name, env='free', f=f, objs=objs)
        for vs in (1e-7, 7e-6, 1e6):         # the report carries the currents of microvolt and megavolt sources just the same
            yield dict(extra='%s x%g V' % (name, vs), env='free', f=f, objs=objs, vscale=vs)
    # objects standing on the ground plane with one or both ends: half loop (one arc, two quarter arcs), arc + monopole
    hl = dict(kind='arc', n=6, radius=R, ang1=0., ang2=180., r=r)
    hlr = dict(kind='arc', n=6, radius=R, ang1=180., ang2=0., r=r)
    q1 = dict(kind='arc', n=3, radius=R, ang1=0., ang2=90., r=r)
    q2 = dict(kind='arc', n=3, radius=R, ang1=90., ang2=180., r=r)
    q2r = dict(kind='arc', n=3, radius=R, ang1=180., ang2=90., r=r)
    mono = geom.wire([2.5 * R, 0.3 * R, 0.], [2.5 * R, 0.3 * R, 2 * R], 4, r)
    for name, objs in (('half-loop', [hl]), ('half-loop-rev', [hlr]), ('two-quarter-arcs', [q1, q2]), ('two-quarter-arcs-head-on', [q1, q2r]),
                       ('half-loop+monopole', [hl, mono]), ('monopole+half-loop', [mono, hlr])):
        yield dict(extra='gnd-' + name, env='ideal', f=f, objs=objs)
    # junctions just above the plane: higher than 1/1000 of the shortest segment of the structure (not grounded), lower than
    # 1/1000 of the segments of the long wire ending there
    h, rs = 1e-5 * lam, 2e-6 * lam
    mast = geom.wire([0., 0., h], [0., 0., 0.2 * lam], 10, rs)
    mastr = geom.wire([0., 0., 0.2 * lam], [0., 0., h], 10, rs)
    stub = geom.wire([0., 0., 0.], [0., 0., h], 1, rs)
    rad1 = geom.wire([0., 0., h], [6 * h, 0., h], 1, rs)
    rad2 = geom.wire([-5 * h, 3 * h, h], [0., 0., h], 1, rs)
    for name, objs in (('stub+mast', [stub, mast]), ('mast+stub', [mast, stub]), ('mast-rev+stub', [mastr, stub]),
                       ('mast+2stubs', [mast, rad1, rad2]), ('2stubs+mast-rev', [rad1, rad2, mastr])):
        yield dict(extra='gnd-low-' + name, env='ideal', f=f, objs=objs)
    # exactly collinear junctions (telescoping element, different radii, equal segment vectors), every orientation, two orders
    stops = [np.array([0., y, 0.5]) for y in (-1., 0., 1., 2.)]
    for order in ((0, 1, 2), (2, 0, 1)):
        for flips in itertools.product((0, 1), repeat=3):
            objs = [geom.wire(stops[i + 1], stops[i], 4, (0.002, 0.0075, 0.004)[i]) if flips[i] else geom.wire(stops[i], stops[i + 1], 4, (0.002, 0.0075, 0.004)[i])
                    for i in order]
            yield dict(extra='telescope-%s-%s' % (''.join(map(str, order)), ''.join(map(str, flips))), env='free', f=30.0, objs=objs)


def evaluate_extra(c):
    case = dict(f=c['f'], env=c['env'], wires=c['objs'])
    m = geom.build(case, sources=False)
    import mininec.mininec as mm
    # feed: first interior pulse of the first object
    fp = [p for p in m.pulses if p.geo[0] is p.geo[1]][0]
    m.register_source(mm.Excitation((1 + 0.3j) * c.get('vscale', 1.0)), fp.idx)
    m.compute()
    blocks = report.parse_currents(m.currents_as_mininec())
    hc = geom.half_currents(m)
    tol = 10 * geom.ptol(m)
    imax = float(np.max(np.abs(m.current)))
    ends = []
    for gi, g in enumerate(m.geo):
        s0, s1 = g.segments[0], g.segments[-1]
        ends.append((gi, 0, np.array(s0.p1, float), np.array(s0.p2, float)))
        ends.append((gi, 1, np.array(s1.p2, float), np.array(s1.p1, float)))
    viol, printed = [], {}
    # "end 1" / "end 2" of the report are the ends of the DESCRIPTION: first / second point of a wire, first / second angle of an arc
    from mcx.ref import segref
    for gi, w in enumerate(c['objs']):
        k_ = w.get('kind', 'wire')
        if k_ == 'wire':
            d1, d2 = np.array(w['p1'], float), np.array(w['p2'], float)
        elif k_ == 'arc':
            ae = segref.arc_ends(w['n'], w['radius'], w['ang1'], w['ang2'])
            d1, d2 = ae[0], ae[-1]
        else:
            continue
        for en, dpt in ((0, d1), (1, d2)):
            if np.linalg.norm(ends[2 * gi + en][2] - dpt) > 1e-3 * np.linalg.norm(ends[2 * gi + en][2] - ends[2 * gi + en][3]):
                viol.append(('END-PLACE', '%s: end %d of object %d lies at %s, described at %s' % (c['extra'], en + 1, gi + 1, np.round(ends[2 * gi + en][2], 5), np.round(dpt, 5))))
    lastonly = set()
    groups = []
    used = set()
    # object ends on the ground plane (from the segment table): they carry a ground pulse and print no end line
    gtol = 1e-3 * min(sg.seg_len for g in m.geo for sg in g.segments)
    grounded = set(i for i, e in enumerate(ends) if c['env'] != 'free' and abs(e[2][2]) < gtol)
    for i, e in enumerate(ends):
        if i in used or i in grounded:
            continue
        grp = [j for j in range(len(ends)) if j not in used and j not in grounded and np.linalg.norm(ends[j][2] - e[2]) < tol]
        used |= set(grp)
        groups.append(grp)
    junc_of = {}
    for grp in groups:
        for j in grp:
            junc_of[j] = grp
    for gi, (g, b) in enumerate(zip(m.geo, blocks)):
        rows = list(b['rows'])
        for e in (0, 1):
            j = 2 * gi + e
            if j in grounded:
                # the first / last row of the block must be the ground pulse itself (a numbered row), not an E or J line
                edge = rows[0] if e == 0 else (rows[-1] if rows else None)
                if edge is None or not isinstance(edge[0], int):
                    viol.append(('ENDKIND', '%s: object %d end %d stands on the ground plane but prints the end line %s' % (c['extra'], gi + 1, e + 1, edge)))
                    if rows:
                        rows.pop(0) if e == 0 else rows.pop(-1)
                continue
            exp = 'J' if len(junc_of[j]) > 1 else 'E'
            if not rows:
                viol.append(('MISSING', '%s: object %d end %d: no line' % (c['extra'], gi + 1, e + 1)))
                continue
            row = rows.pop(0) if e == 0 else rows.pop(-1)
            if row[0] != exp:
                viol.append(('ENDKIND', '%s: object %d end %d prints %s expected %s' % (c['extra'], gi + 1, e + 1, row[0], exp)))
                continue
            if exp == 'E':
                if row[1] != 0:
                    viol.append(('FREE-END', '%s: E line not zero' % c['extra']))
                continue
            X, O = ends[j][2], ends[j][3]
            u = (O - X) / np.linalg.norm(O - X)
            hv = hc.lookup(X, u)
            if hv is None:
                hv = 0j          # no pulse overlaps this end segment half at all
            expv = hv if e == 0 else -hv
            printed[j] = row[1]
            if abs(row[1] - expv) > 2e-6 * imax + pfloor(imax):
                # the known first-end slip: the line shows exactly one of several overlapping pulses
                indiv = []
                for p in m.pulses:
                    for h in (0, 1):
                        v = np.array(p.ends[h], float) - np.array(p.point, float)
                        if np.linalg.norm(np.array(p.point, float) - X) < tol and np.linalg.norm(v / np.linalg.norm(v) - u) < 1e-4:
                            ii = m.current[p.idx] * (1 if h == 1 else -1)
                            indiv.append(ii if e == 0 else -ii)
                lo = len(indiv) >= 2 and any(abs(row[1] - x) <= 2e-6 * imax + pfloor(imax) for x in indiv)
                if lo:
                    lastonly.add(j)
                viol.append(('J-VALUE-end%d-%s' % (e + 1, 'lastonly' if lo else 'extra'), '%s: object %d end %d prints J=%s, pulse currents on that end sum to %s (%d overlapping pulses)'
                             % (c['extra'], gi + 1, e + 1, row[1], expv, len(indiv))))
    for grp in groups:
        if len(grp) > 1 and all(j in printed for j in grp):
            tot = sum(printed[j] if ends[j][1] == 1 else -printed[j] for j in grp)
            mx = max(abs(printed[j]) for j in grp)
            if abs(tot) > 1e-6 * len(grp) * mx + len(grp) * pfloor(imax):
                viol.append(('KIRCHHOFF-%s' % ('lastonly' if any(j in lastonly for j in grp) else 'extra'), '%s: printed J lines at one junction sum to %s (max %g)' % (c['extra'], tot, mx)))
    return dict(viol=viol[:6], canon='extra|' + c['extra'], nontriv=True, outcome='extra', dev=0.0)


def evaluate(c):
    if 'extra' in c:
        return evaluate_extra(c)
    pts = [np.array(p) for p in c['pts']]
    ground = c['env'] != 'free'
    ws = [geom.wire(pts[a], pts[b], n, 1e-4) for a, b, n in c['wires']]
    case = dict(f=c['f'], env=c['env'], wires=ws)
    junc, gnd, free, amb = topo.clusters(case, ground)
    # source: an interior pulse of the wire that is the canonical first edge, else any interior pulse
    sa, sb = c['src']
    src = None
    for (a, b, n), w in zip(c['wires'], ws):
        if {a, b} == {sa, sb} and n >= 2:
            p1, p2 = pts[sa], pts[sb]
            src = dict(at=list(p1 + (p2 - p1) / n), dir=list(p2 - p1), v=[1.0 * c.get('vscale', 1.0), 0.3 * c.get('vscale', 1.0)])
    if src is None:
        for (a, b, n), w in zip(c['wires'], ws):
            if n >= 2:
                src = dict(at=list(pts[a] + (pts[b] - pts[a]) / n), dir=list(pts[b] - pts[a]), v=[1.0 * c.get('vscale', 1.0), 0.3 * c.get('vscale', 1.0)])
                break
    if src is None:
        return dict(viol=[], skipped='no-interior-pulse', evals=0)
    case['sources'] = [src]
    try:
        if 'moved' in c:
            from mcx import cli
            m, diag = cli.build_moved(case, c['moved']['wire'], c['moved']['d'])
            if m is None:
                if 'oth ends' in diag:
                    return dict(viol=[], skipped='both-ends-grounded', evals=1)
                return dict(viol=[('REJECTED-moved', 'wire %d moved into place by --geo-translate: %s' % (c['moved']['wire'] + 1, diag))])
            geom.add_sources(m, [src])
        else:
            m = geom.build(case)
    except ValueError as e:
        if 'Both ends' in str(e):
            return dict(viol=[], skipped='both-ends-grounded', evals=1)
        return dict(viol=[('REJECTED', str(e))])
    m.compute()
    text = m.currents_as_mininec()
    blocks = report.parse_currents(text)
    viol = []
    if len(blocks) != len(ws):
        return dict(viol=[('BLOCKS', '%d blocks for %d wires' % (len(blocks), len(ws)))])
    hc = geom.half_currents(m)
    tolp = geom.ptol(m)
    imax = float(np.max(np.abs(m.current)))
    inj = {}
    for jn in junc:
        for k in jn:
            inj[k] = tuple(jn)
    printed = {}
    lastonly_ends = set()
    for wi, (w, b) in enumerate(zip(ws, blocks)):
        rows = list(b['rows'])
        npl = sum(1 for r in rows if isinstance(r[0], int))
        ng = sum(1 for e in (0, 1) if (wi, e) in gnd)
        if npl != w['n'] - 1 + ng:
            viol.append(('ROWS', 'wire %d prints %d own pulses, expected %d' % (wi + 1, npl, w['n'] - 1 + ng)))
        for e in (0, 1):
            key = (wi, e)
            if key in gnd:
                exp = None
            elif key in inj:
                exp = 'J'
            else:
                exp = 'E'
            row = None
            if exp is not None:
                if not rows:
                    viol.append(('MISSING', 'wire %d end %d: no line' % (wi + 1, e + 1)))
                    continue
                row = rows.pop(0) if e == 0 else rows.pop(-1)
                if row[0] != exp:
                    viol.append(('ENDKIND', 'wire %d end %d prints %s expected %s' % (wi + 1, e + 1, row[0], exp)))
                    continue
            else:
                chk = rows[0] if (e == 0 and rows) else (rows[-1] if rows else None)
                if chk is not None and not isinstance(chk[0], int) and len([r for r in rows if not isinstance(r[0], int)]) > (1 if (wi, 1 - e) not in gnd else 0):
                    viol.append(('ENDKIND', 'wire %d grounded end %d has an end line' % (wi + 1, e + 1)))
                continue
            if exp == 'E':
                if row[1] != 0 or row[2] != 0:
                    viol.append(('FREE-END', 'wire %d end %d: E line not zero: %s' % (wi + 1, e + 1, row)))
            else:
                X = np.array(w['p1'] if e == 0 else w['p2'])
                O = np.array(w['p2'] if e == 0 else w['p1'])
                u = (O - X) / np.linalg.norm(O - X)
                hv = hc.lookup(X, u)
                if hv is None:
                    viol.append(('HARNESS', 'no half-segment current for wire %d end %d' % (wi + 1, e + 1)))
                    continue
                expv = hv if e == 0 else -hv
                printed[key] = row[1]
                if abs(row[1] - expv) > 2e-6 * imax + pfloor(imax):
                    # characterise: does the line show exactly ONE of the >=2 overlapping pulse currents?
                    indiv = []
                    for p in m.pulses:
                        for h in (0, 1):
                            if p.ground[h]:
                                continue
                            v = np.array(p.ends[h], float) - np.array(p.point, float)
                            if np.linalg.norm(np.array(p.point, float) - X) < tolp and np.linalg.norm(v / np.linalg.norm(v) - u) < 1e-4:
                                ii = m.current[p.idx] * (1 if h == 1 else -1)
                                indiv.append(ii if e == 0 else -ii)
                    lastonly = len(indiv) >= 2 and any(abs(row[1] - x) <= 2e-6 * imax + pfloor(imax) for x in indiv)
                    if lastonly:
                        lastonly_ends.add(key)
                    viol.append(('J-VALUE-end%d%s' % (e + 1, '-lastonly' if lastonly else ''),
                                 'wire %d end %d prints J=%s, pulse currents on that end sum to %s (k=%d junction, %d overlapping pulses)'
                                 % (wi + 1, e + 1, row[1], expv, len(inj[key]), len(indiv))))
                # magnitude / phase columns
                if abs(row[2] - abs(row[1])) > 2e-6 * abs(row[1]) + 2 * pfloor(imax):
                    viol.append(('MAG', 'magnitude column %g vs %g' % (row[2], abs(row[1]))))
    for jn in junc:
        if not all(k in printed for k in jn):
            continue
        tot = sum(printed[k] if k[1] == 1 else -printed[k] for k in jn)
        mx = max(abs(printed[k]) for k in jn)
        if abs(tot) > 1e-6 * len(jn) * mx + len(jn) * pfloor(imax):
            lo = any(k in lastonly_ends for k in jn)
            viol.append(('KIRCHHOFF-%s' % ('lastonly' if lo else 'k%d' % len(jn)),
                         'junction %s: printed J lines sum to %s (max %g)' % (jn, tot, mx)))
    und = sorted((min(a, b), max(a, b), n) for a, b, n in c['wires'])
    kmax = max([len(j) for j in junc] + [0])
    if 'moved' in c:
        viol = [(a if 'lastonly' in a else a + '-moved', b + ' [wire %d moved into place by --geo-translate=%s]' % (c['moved']['wire'] + 1, c['moved']['d'])) for a, b in viol]
        return dict(viol=viol[:8], canon='%s|%s|moved%d:%s' % (c['env'], und, c['moved']['wire'], [round(x, 6) for x in c['moved']['d']]),
                    nontriv=kmax >= 2, outcome='moved,kmax=%d,gnd=%d' % (kmax, len(gnd)), dev=0.0)
    return dict(viol=viol[:8], canon='%s|%s' % (c['env'], und), nontriv=kmax >= 2, outcome='kmax=%d,gnd=%d' % (kmax, len(gnd)),
                dev=0.0)
