"""C07 Currents are linear in the source voltages; source data are V/I and Re(VI*)/2."""
import itertools, cmath
import numpy as np
from mcx import geom, obs
from mcx.ref import report

PID = 'C07'
CHUNK = 1
TOLERANCE = 'scaling/superposition 1e-9 relative; dBi 1e-6 dB; report numbers 5e-6 relative (+1e-6 absolute for fixed-point voltage)'
RULE = ('In-domain lattice structures (free space, ideal ground, generic and axis-aligned lattices, <=3 wires; quick: every '
        '4th) x source position sets: every single pulse, pairs/triples/quadruples drawn from {first, junction, grounded, '
        'last, middle} pulses, one same-pulse pair x voltage vectors from {1,-1,j,0.3-2j,1e-3,1e3}^k (all for k<=2, a '
        'fixed greedy strength-2 covering array for k=3,4) x scale factors {-1, j, 2.5e-3*exp(1.1j)}. Oracles: I(aV)=aI(V), '
        'Z and dBi unchanged; I(V1..Vk) = sum of single-source responses (others at 0 V, and others absent); '
        'Excitation.impedance/power recomputed from the voltages applied and Mininec.current; SOURCE DATA block parsed. '
        'The scaled solve is also repeated on the SAME object; every 8th (thorough: every) structure additionally carries a lumped '
        'and an RLC load. State = (structure, positions, voltages); transition = one solve. Non-trivial: k>=2 or a junction/grounded feed.')
ASSUMPTIONS = ['sources addressed by absolute pulse number taken from the built pulse table']
VOLT = [1 + 0j, -1 + 0j, 1j, 0.3 - 2j, 1e-3 + 0j, 1e3 + 0j]
ALPHA = [-1 + 0j, 1j, 2.5e-3 * cmath.exp(1.1j)]


def covering(k, q=6):
    """deterministic greedy strength-2 covering array over q symbols, k columns"""
    need = set((a, b, x, y) for a, b in itertools.combinations(range(k), 2) for x in range(q) for y in range(q))
    rows = []
    allrows = list(itertools.product(range(q), repeat=k))
    while need:
        best, bc = None, -1
        for r in allrows:
            c = sum(1 for a, b in itertools.combinations(range(k), 2) if (a, b, r[a], r[b]) in need)
            if c > bc:
                best, bc = r, c
        rows.append(best)
        for a, b in itertools.combinations(range(k), 2):
            need.discard((a, b, best[a], best[b]))
    return rows


COV = {3: covering(3), 4: covering(4)}


def bounds(tier, seed):
    return dict(voltages=[str(v) for v in VOLT], alphas=[str(a) for a in ALPHA], covering_rows={k: len(v) for k, v in COV.items()},
                variant=geom.variant(seed))


def cases(tier, seed):
    i = 0
    for ground, special in ((False, False), (True, False), (False, True), (True, True)):
        P, f, lam = geom.lattice(seed, ground=ground, special=special)
        pts = [list(map(float, p)) for p in P]
        for es in geom.edge_sets(5, 3):
            nseg = [geom.auto_nseg(np.linalg.norm(P[a] - P[b]), 0.05 * lam) for a, b in es]
            st = [dict(a=a, b=b, n=nseg[k], r=2e-4 * lam) for k, (a, b) in enumerate(es)]
            c = dict(env='ideal' if ground else 'free', f=f, lam=lam, pts=pts, st=st)
            case = dict(f=f, env=c['env'], wires=[geom.wire(P[e['a']], P[e['b']], e['n'], e['r']) for e in st])
            if geom.domain(case, lam, ground=ground):
                continue
            i += 1
            if tier == 'quick' and i % 4 != 1:
                continue
            yield c
            # the same structure carrying a lumped impedance and a series RLC load (single feeds and pairs)
            if tier != 'quick' or i % 8 == 1:
                yield dict(c, loaded=True)


def solve(case, srcs):
    m = geom.build(dict(case, sources=[dict(pulse=p, v=[v.real, v.imag]) for p, v in srcs]))
    m.compute()
    return m


def evaluate(c):
    pts = [np.array(p) for p in c['pts']]
    case = dict(f=c['f'], env=c['env'], wires=[geom.wire(pts[e['a']], pts[e['b']], e['n'], e['r']) for e in c['st']])
    m0 = geom.build(case)
    N = len(m0.pulses)
    junc = [p.idx for p in m0.pulses if p.geo[0] is not p.geo[1]]
    gnd = [p.idx for p in m0.pulses if p.ground.any()]
    special = list(dict.fromkeys([0] + junc[:1] + gnd[:1] + [N - 1, N // 2] + junc[1:2] + gnd[1:2]))
    special = [p for p in special if 0 <= p < N]
    sets = [(p,) for p in range(N)]
    sets += list(itertools.combinations(special[:4], 2))
    if c.get('loaded'):
        case['loads'] = [dict(pulse=N // 2, z=[30., 40.]), dict(pulse=0, kind='rlc', rlc=[5., 2e-6, 30e-12])]
    else:
        sets += list(itertools.combinations(special[:4], 3))[:2]
        sets += list(itertools.combinations(special[:4], 4))[:1]
    viol, worst, ns, nt = [], 0.0, 0, 0
    canon, nontriv = [], []
    single = {}
    wname = None
    zen, azi = ((10., 35., 3) if c['env'] != 'free' else (20., 50., 3)), (15., 100., 3)

    def single_resp(p, v):
        if (p, v) not in single:
            single[(p, v)] = solve(case, [(p, v)]).current.copy()
        return single[(p, v)]

    def chk(name, x, tol, msg):
        nonlocal worst, wname
        if x / tol > worst:
            worst, wname = x / tol, name + ': ' + msg
        if not (x <= tol):
            viol.append((name, msg + ' (%.3g > %.3g)' % (x, tol)))
    for ps in sets:
        k = len(ps)
        if k == 1:
            vecs = [(i,) for i in range(6)]
        elif k == 2:
            vecs = list(itertools.product(range(6), repeat=2))
        else:
            vecs = COV[k]
        for vi, vec in enumerate(vecs):
            V = [VOLT[i] for i in vec]
            m = solve(case, list(zip(ps, V)))
            ns += 1
            I = m.current.copy()
            imax = np.abs(I).max()
            tag = 'k%d' % k
            # source data: harness recomputation
            for s, p, v in zip(m.sources, ps, V):
                cur = m.current[p]
                chk('SRC-Z', abs(s.impedance - v / cur) / abs(v / cur), 1e-12, 'Excitation.impedance != V/I on pulse %d' % (p + 1))
                pw = 0.5 * (v * np.conj(cur)).real
                chk('SRC-P', abs(s.power - pw) / abs(0.5 * v * np.conj(cur)), 1e-12, 'Excitation.power != Re(VI*)/2 on pulse %d' % (p + 1))
            chk('SRC-PTOT', abs(m.power - sum(0.5 * (v * np.conj(m.current[p])).real for p, v in zip(ps, V)))
                / sum(abs(0.5 * v * np.conj(m.current[p])) for p, v in zip(ps, V)), 1e-12, 'total power')
            # superposition (others absent) and (others at 0 V)
            sup = sum(single_resp(p, v) for p, v in zip(ps, V))
            chk('SUPERPOSE-' + tag, np.abs(I - sup).max() / imax, 1e-9, 'I(V1..Vk) != sum of single responses, pulses %s volts %s' % (ps, V))
            if k >= 2 and vi < 3:
                tot = 0
                for j in range(k):
                    vz = [V[i] if i == j else 0j for i in range(k)]
                    tot = tot + solve(case, list(zip(ps, vz))).current
                    ns += 1
                chk('SUPERPOSE0-' + tag, np.abs(I - tot).max() / imax, 1e-9, 'I != sum of responses with the others held at 0 V, pulses %s' % (ps,))
            # scaling
            if vi % 3 == 0:
                et0 = None
                for ai, a in enumerate(ALPHA):
                    ma = solve(case, [(p, a * v) for p, v in zip(ps, V)])
                    ns += 1
                    chk('SCALE-I-' + tag, np.abs(ma.current - a * I).max() / (abs(a) * imax), 1e-9, 'I(aV) != a I(V), a=%s pulses %s' % (a, ps))
                    za = np.array([s.impedance for s in ma.sources])
                    z0 = np.array([s.impedance for s in m.sources])
                    chk('SCALE-Z-' + tag, np.max(np.abs(za - z0) / np.abs(z0)), 1e-9, 'Z changes under scaling a=%s' % a)
                    if ai == 2 and vi == 0 and m.power > 0.05 * sum(abs(s.power) for s in m.sources):
                        _, _, g0 = obs.far(m, zen, azi)
                        _, _, g1 = obs.far(ma, zen, azi)
                        msk = g0 > -200
                        chk('SCALE-G-' + tag, float(np.abs(g0 - g1)[msk].max()) if msk.any() else 0.0, 1e-6, 'dBi changes under scaling')
                        # the same with a power level and distance requested for the V/m table
                        _, _, g2 = obs.far(m, zen, azi, pwr=100., dist=1000.)
                        _, _, g3 = obs.far(ma, zen, azi, pwr=100., dist=1000.)
                        chk('SCALE-G-pwr-' + tag, float(max(np.abs(g0 - g2)[msk].max(), np.abs(g0 - g3)[msk].max())) if msk.any() else 0.0, 1e-6,
                            'dBi changes under scaling when a power level is requested')
            # report
            if vi % 5 == 0:
                nt += 1
                txt = m.source_data_as_mininec()
                sd = report.parse_source_data(txt)
                if len(sd) != k:
                    viol.append(('REPORT-BLOCKS', '%d source blocks for %d sources' % (len(sd), k)))
                else:
                    for b, p, v in zip(sd, ps, V):
                        cur = m.current[p]
                        if b['pulse'] != p + 1:
                            viol.append(('REPORT-PULSE', 'block names pulse %d, source is on %d' % (b['pulse'], p + 1)))
                        chk('REPORT-V', abs(b['voltage'] - v), 5e-6 * abs(v) + 1.5e-6, 'printed voltage %s vs %s' % (b['voltage'], v))
                        for key, val in (('current', cur), ('impedance', v / cur)):
                            for part, pa, pb in (('re', b[key].real, val.real), ('im', b[key].imag, val.imag)):
                                chk('REPORT-' + key, abs(pa - pb), 5e-6 * abs(pb) + 1e-300, 'printed %s (%s) %r vs %r' % (key, part, pa, pb))
                        pw = 0.5 * (v * np.conj(cur)).real
                        chk('REPORT-power', abs(b['power'] - pw), 5e-6 * abs(pw) + 1e-30, 'printed power %g vs %g' % (b['power'], pw))
            # the same object solved again with all voltages multiplied by j (after everything else that reads m)
            if vi % 3 == 0:
                for sx in m.sources:
                    sx.voltage = sx.voltage * 1j
                m.compute()
                ns += 1
                chk('SCALE-I-sameobject-' + tag, np.abs(m.current - 1j * I).max() / imax, 1e-9, 'second compute() on the same object with V*j: I != j I(V), pulses %s' % (ps,))
                zs = np.array([sx.impedance for sx in m.sources])
                zr = np.array([v / I[p] for p, v in zip(ps, V)])
                chk('SCALE-Z-sameobject-' + tag, np.max(np.abs(zs - zr) / np.abs(zr)), 1e-9, 'second compute() on the same object: Z changes')
            canon.append('%s%s|%s' % ('L' if c.get('loaded') else '', ps, vec))
            nontriv.append(k >= 2 or ps[0] in junc or ps[0] in gnd)
    # two sources registered on the same pulse: the statement's formulation (others held at 0 V) and scaling
    if N >= 2:
        p = special[0]
        m = solve(case, [(p, 1 + 0j), (p, 0.3 - 2j)])
        tot = solve(case, [(p, 1 + 0j), (p, 0j)]).current + solve(case, [(p, 0j), (p, 0.3 - 2j)]).current
        ma = solve(case, [(p, 1j * (1 + 0j)), (p, 1j * (0.3 - 2j))])
        ns += 4
        chk('SUPERPOSE0-samepulse', np.abs(m.current - tot).max() / np.abs(m.current).max(), 1e-9, 'two sources on pulse %d' % (p + 1))
        chk('SCALE-I-samepulse', np.abs(ma.current - 1j * m.current).max() / np.abs(m.current).max(), 1e-9, 'two sources on pulse %d' % (p + 1))
    und = sorted((e['a'], e['b'], e['n']) for e in c['st'])
    return dict(viol=viol[:8], canon=['%s|%s|%s' % (c['env'], und, x) for x in canon], nontriv=nontriv, trans=ns, traces=len(canon),
                evals=ns, dev=worst, note=wname, outcome='N=%d,junc=%d,gnd=%d' % (N, len(junc), len(gnd)))
