"""C20 Command line is fail-safe: complete finite report or one-line diagnostic."""
import itertools, re, os, tempfile
import numpy as np
from mcx import cli

PID = 'C20'
CHUNK = 8
TOLERANCE = 'exactly one of: complete report with finite numbers / return 23 with one diagnostic line and no report / usage error of the option parser'
RULE = ('Deviation-bounded exploration from 5 valid base command lines (wire dipole with far field; a tapered 10-segment wire; two grounded wires over '
        'two media with radials and a load; arc + helix + tapered wire with transformations, skin effect and near field; '
        'loaded three-wire structure with RLC/trap/Laplace loads, sweep and V/m table): the base, EVERY single deviation '
        '(thorough: every pair) from a menu of ~330 (option, value) entries covering each documented option with zero, '
        'negative, tiny, huge-but-cheap, NaN, +-inf, wrong arity, empty field, text, unknown/duplicate tag, out-of-range '
        'index, contradictory companions, degenerate and duplicate geometry, unwritable output path. Each argument list is '
        'run in-process through main() with stdout/stderr captured and classified. A violation is identified by outcome '
        'class, exception type, innermost mininec function and deviating option + value class (a pair that fails exactly '
        'like one of its members alone is attributed to that member). State = argument list; transition = one run. '
        'Non-trivial: at least one deviation.')
ASSUMPTIONS = ['counts that would only make a run long are capped in the menu (<= 200 segments, <= 50 sweep steps, <= 400 directions)']

TMP = tempfile.mkdtemp(prefix='c20-')
# scratch directory for the files the writers are asked for: removed when the checking process ends (pool workers are forked
# from it and share it; they leave through os._exit and do not run this)
import atexit, shutil
atexit.register(shutil.rmtree, TMP, ignore_errors=True)

BASES = {
    'dip': ['-f', '30', '-w', '6,0,0,0,0,0,5,.002', '--excitation-pulse=3', '--theta=0,30,4', '--phi=0,90,3'],
    'gnd': ['-f', '30', '-w', '1,4,0,0,0,0.3,0.2,1.2,.002', '-w', '2,4,0.3,0.2,1.2,1.3,0.4,1.5,.002', '--medium=13,0.005,0,5', '--medium=3,0.001,-1',
            '--radial-count=8', '--radial-radius=0.001', '--excitation-pulse=1,1', '--load=10+5j', '--attach-load=1,2', '--theta=0,30,4', '--phi=0,90,3'],
    'geo': ['-f', '30', '-a', '1,4,1,0,90,.002', '-H', '2,8,1,0.5,.002,.3,.3', '-w', '3,3,1,0,0,2,0.5,0.3,.002', '--geo-rotate=1,10,20,30,1',
            '--geo-translate=2,0,0,3,2', '--geo-scale=0.5', '--excitation-pulse=2,1', '--near-field=1,1,1,.5,.5,.5,2,1,2', '--skin-effect-conductivity=1e6',
            '--taper-wire=3,1'],
    'tap': ['-f', '30', '-w', '10,0,0,0,0,0,1,0.001', '-w', '4,0,0,1,0.3,0.2,1.2,0.001', '--excitation-pulse=3', '--taper-wire=1,1', '--theta=0,45,3', '--phi=0,90,2'],
    'lds': ['-f', '21.3', '-w', '4,0,0,1,0.5,0.8,2,0.001', '-w', '5,0.5,0.8,2,2,0.5,2.6,0.002', '-w', '3,2,0.5,2.6,2.5,2,2,0.001', '--excitation-pulse=2',
            '--rlc-load=5,2e-6,30e-12', '--attach-load=1,4', '--trap-load=2,1e-6,50e-12', '--attach-load=2,6', '--laplace-load-a=1,2e-9', '--laplace-load-b=10,3e-6',
            '--attach-load=3,all,3', '--frequency-increment=1', '--frequency-steps=2', '--option=far-field-absolute', '--ff-distance=100', '--theta=10,35,2', '--phi=0,90,2'],
}


def vclass(v, opt=None):
    if v is None:
        return 'flag'
    if opt == '--taper-wire':
        return v          # small menu with value-specific behaviour: the literal value identifies the case
    if v == '':
        return 'empty'
    parts = v.split(',')
    cl = []
    for p in parts:
        q = p.strip().lower()
        if q == '':
            c = 'empty-field'
        elif q in ('nan', 'nanj') or 'nan' in q:
            c = 'nan'
        elif 'inf' in q:
            c = 'inf'
        else:
            try:
                x = complex(q)
                if x == 0:
                    c = 'zero'
                elif abs(x) >= 1e100:
                    c = 'huge'
                elif abs(x) <= 1e-100:
                    c = 'tiny'
                elif x.real < 0:
                    c = 'neg'
                else:
                    c = 'num'
            except ValueError:
                c = 'text'
        cl.append(c)
    odd = [c for c in cl if c != 'num']
    return '%d:%s' % (len(parts), '+'.join(sorted(set(odd))) if odd else 'num')


def menu():
    M = []

    def add(opt, vals):
        for v in vals:
            M.append((opt, v))
    NUMS = ['0', '-1', '1e-300', '1e300', 'nan', 'inf', '-inf', '', 'abc']
    add('-f', NUMS)
    add('--frequency-increment', ['0', '-1', 'nan', 'inf'])
    add('--frequency-steps', ['0', '-1', '3', '50'])
    add('-w', ['0,0,0,0,0,0,1,.001', '-1,0,0,0,0,0,1,.001', '4,0,0,0,0,0,0,.001', '4,0,0,0,0,0,1,0', '4,0,0,0,0,0,1,-1', '4,0,0,0,0,0,1,5',
               '4,0,0,0,0,0,1,nan', '4,0,0,0,nan,0,1,.001', '4,0,0,0,inf,0,1,.001', '4,0,0,0,0,0,1e300,.001', '4,0,0,0,0,0,1e-300,.001',
               '9,4,0,0,0,0,0,1,.001', '0,4,0,0,0,0,0,1,.001', '4,0,0,0,0,0,1', '4,0,0,-1,0,0,1,.001', '6,0,0,0,0,0,5,.002', '200,0,0,0,0,0,5,.002',
               '4,7,7,7,7,7,8,.001', '2.5,0,0,0,0,0,1,.001', 'x,0,0,0,0,0,1,.001', '4,0,0,0,0,0,1,.001,5,6'])
    add('-a', ['3,1,0,90,.001', '2,1,0,90,.001', '3,0,0,90,.001', '3,1,0,0,.001', '3,1,0,400,.001', '3,1,90,0,.001', '3,1,0,90,0', '3,nan,0,90,.001',
               '3,1,0,nan,.001', '3,1e300,0,90,.001', '3,1,0,360,.001', '3,-1,0,90,.001', '3,1,0,90'])
    add('-H', ['8,1,.5,.001,.3,.3', '8,0,.5,.001,.3,.3', '8,1,0,.001,.3,.3', '8,1,.5,0,.3,.3', '8,1,.5,.001,0,.3', '8,1,.5,.001,.3,.3,.1', '8,nan,.5,.001,.3,.3',
               '8,1,inf,.001,.3,.3', '2,1,.5,.001,.3,.3', '8,-1,-.5,.001,.3,.3', '8,1,1e-300,.001,.3,.3', '8,1,.5,.001,-.3,.3'])
    add('--excitation-pulse', ['0', '-1', '999', '1,99', '99,1', '1,2,3', 'a', '1,', '', '1.5'])
    add('--excitation-voltage', ['0', 'nan', 'inf', '1e300', '1e-300', 'nanj', '1+infj', 'x'])
    add('--load', ['0', 'inf', 'nan', '-50', '1e300', 'nanj', '-5000', '-5000+3j'])
    add('--attach-load', ['0,1', '99,1', '1,0', '1,999', '1,all', '1,all,99', '1,1,99', '1,-1', '1,1,1', '2,1', '1', 'x,1', '1,all,all'])
    for o in ('--rlc-load', '--trap-load'):
        add(o, [',,', '0,0,0', 'nan,0,0', '1,1', '1,1,1,1', '0,0,1e-12', 'inf,0,0', '0,inf,0', '0,0,inf', '-1,-1,-1', 'a,b,c', '5,1e-6,30e-12'])
    for o in ('--laplace-load-a', '--laplace-load-b'):
        add(o, ['0', '0,0', '', 'nan', '1,2,3', 'inf', '1e300,1e300', 'x'])
    for o in ('--skin-effect-conductivity', '--skin-effect-resistivity'):
        add(o, ['0', '-1', 'inf', 'nan', '1e300', '1e-300', '1e6,99', '1e6,1', '1e6,a', '1e6,1,2'])
    add('--insulation-load', ['0.01,2', '0.0001,2', '0.01,0', '0.01,-1', '0.01,1', '0.01,nan', 'nan,2', 'inf,2', '0.01,2,99', '0.01,inf', '0.01', '0.01,2,1,1', '0,2', '0,2.3,1', '-0.01,2', '-0.01,2.3', '-0.01,3.2,1', '1e-9,2'])
    add('--medium', ['0,0,0', '0,0,5', '5,0,0', '0,5,0', '-1,1,0', 'nan,nan,0', '13,0.005,0', '13,0.005,0,0', '13,0.005,0,-5', '13,0.005,0,nan', '13,0.005,nan',
                     'inf,inf,0', '13,0.005', '1e300,1e300,0', '13,-0.005,0', 'a,b,c', '13,0.005,0,1,2'])
    add('--boundary', ['circular', 'linear', 'square'])
    add('--radial-count', ['-1', '0', '8', '100000', 'x'])
    M.append(('--medium', '13,0.005,0'))        # real ground: makes --radial-count without radius reachable as a pair
    add('--radial-radius', ['0', '-1', 'nan', 'inf', '1e-300'])
    for o in ('--theta', '--phi'):
        add(o, ['0,10,0', '0,10,-1', '0,0,3', 'nan,10,3', '0,nan,3', '0,inf,3', '0,10', '0,10,3,4', '0,10,2.5', '1e300,1e300,3', '-400,777,3', '0,1,400'])
    add('--near-field', ['0,0,0,0,0,0,1,1,1', '1,1,1,1,1,1,0,1,1', '1,1,1,1,1,1,-1,1,1', 'nan,1,1,1,1,1,1,1,1', '1,1,1,nan,1,1,2,1,1', '1,1,1,inf,1,1,2,1,1',
                         '0,0,1,1,1,1,1,1,1', '0,0,0,1,1,1,1,1,1', '1e300,0,0,1,1,1,1,1,1', '1,1,1,1,1,1,1,1', '1,1,1,0,1,1,3,1,1', '1,1,1,1,1,1,1.5,1,1'])
    # complete increment x count grid per axis / angle (zero and negative on the SAME axis included)
    nfg = []
    for ax in range(3):
        for inc in ('1', '0', '-1'):
            for cnt in ('2', '1', '0', '-1', '-3'):
                v = ['1', '2', '3', '1', '1', '1', '1', '1', '2']
                v[3 + ax], v[6 + ax] = inc, cnt
                nfg.append(','.join(v))
    add('--near-field', nfg)
    for o in ('--theta', '--phi'):
        add(o, ['5,%s,%s' % (inc, cnt) for inc in ('10', '0', '-10') for cnt in ('2', '1', '0', '-1', '-3')])
    for o in ('--ff-power', '--ff-distance', '--nf-power'):
        add(o, ['0', '-1', 'nan', 'inf', '1e300', '1e-300'])
    for o in ('--geo-rotate', '--geo-translate'):
        add(o, ['1,nan,0,0', '1,inf,0,0', '1,0,0,0,99', 'nan,0,0,1', '1,1e300,0,0', '1,0,0', '1,0,0,0,1,1', 'a,0,0,0', '1,0,0,-100', '1,0,0,0,x'])
    add('--geo-scale', ['0', '-1', 'nan', 'inf', '1e300', '1e-300', '2,99', '2,a', '1,2,3'])
    add('--taper-wire', ['99,1', '1,0', '1,4', '1,1,-1', '1,1,5', '1,1,1,0.5', '1,1,nan', '1,1,0,nan', '1,3,1e-9,1e9', '1,1,inf', '1', '1,1,1,1,1', '1,2', '1,3',
                         '3,1,0.5', '3,2,0,0.01', 'x,1', '1,1,0,0', '1,3,0,0', '1,2,0.1,0', '1,1,0,0.75', '1,2,0,0.75', '1,3,0,0.75', '1,1,0.2,0.3', '1,1,0,0.9', '1,1,0,1.5', '1,2,0,3.5', '1,1,0,4.9', '1,3,0,1.5', '1,1,0.5,1.5'])
    add('--option', ['far-field', 'near-field', 'far-field-absolute', 'none', 'bogus'])
    for o in ('--output-basic-input', '--output-cmdline'):
        add(o, ['/nonexistent/dir/x', os.path.join(TMP, 'o.txt'), ''])
    add('--mininec-version', ['9', '12', '13', '10'])
    M.append(('-T', None))
    # boundary values of pulse addressing, derived from the pulse table of the base itself
    for form in ('abs-last', 'abs-past', 'rel-last', 'rel-past', 'rel-last-obj2', 'rel-past-obj2'):
        M.append(('SRC-BOUNDARY', form))
        M.append(('LOAD-BOUNDARY', form))
    # degenerate / duplicate geometry derived from the base itself
    M.append(('DUP-FIRST-WIRE', 'same'))
    M.append(('DUP-FIRST-WIRE', 'reversed'))
    M.append(('DUP-FIRST-WIRE', 'half'))
    M.append(('-w+', '3,0.05,0.05,0.05,0.06,0.05,0.05,.002'))       # a second, very short wire far from resonance
    M.append(('-w+', '2,0,0,2.5,3,0,2.5,.002'))                      # a wire crossing the first one of the dipole base
    # diagnostics main() prints itself: non-numeric tags with the full parameter count, wrong helix arity, non-numeric
    # near-field start / increment, more pulses than voltages, a sweep that ends at f <= 0, taper on a 1-segment wire,
    # arcs / helices touching the plane in ways the constructors refuse, radials on ideal ground / on a single medium
    M.append(('-w', 'x,4,0,0,0,0,0,1,.001'))
    M.append(('-a+', 'x,4,1,0,90,.001'))
    M.append(('-H+', 'x,8,1,0.5,.001,0.1,0.1'))
    M.append(('-H+', '8,1,0.5,.001'))
    M.append(('-H+', '8,1,0.5,.001,0.1,0.1,0.1,0.1,0.1,0.1'))
    M.append(('-H+', '8,1,0.5,.001,0.1'))
    M.append(('-H+', '8,-1,0.5,.001,0.1,0.2,0.05,0.3'))
    M.append(('--near-field', 'a,1,1,1,1,1,1,1,1'))
    M.append(('--near-field', '1,1,1,b,1,1,1,1,1'))
    M.append(('--near-field', '1,1,1,1,1,1,c,1,1'))
    M.append(('--excitation-pulse+', '2'))
    M.append(('--excitation-voltage+', '2'))
    M.append(('SWEEP-DOWN', '3'))
    M.append(('SWEEP-DOWN', '200'))
    for t in ('1', '2', '3'):
        M.append(('TAPER-ONE-SEG', t))
    M.append(('GROUND+', '-a=4,1,0,180,.001'))          # half circle standing on the plane with both ends
    M.append(('GROUND+', '-a=4,1,-90,0,.001'))          # arc below the plane
    M.append(('GROUND+', '-a=8,1,0,360,.001'))          # closed loop touching the plane... below it
    M.append(('GROUND+', '-a=3,1,-60,60,.001'))
    M.append(('GROUND+', '-H=8,1,0.5,.001,0.1,0.1'))    # helix starting on the plane
    M.append(('GROUND+', '-w=3,1,1,0,2,2,0,.001'))      # wire lying in the plane
    M.append(('GROUND+', '-w=3,1,1,1,2,2,-1,.001'))     # wire crossing the plane
    M.append(('GROUND+', '-a=4,1,0,90,.001;--geo-rotate=1,90,0,0'))            # arc turned into the plane
    M.append(('GROUND+', '-H=8,1,0.5,.001,0.1,0.1;--geo-rotate=1,0,90,0'))     # helix with a horizontal axis through the plane
    M.append(('GROUND+', '-H=8,1,0.5,.001,0.1,0.1;--geo-translate=1,0,0,-0.5'))  # helix pushed down: an intermediate joint on the plane
    M.append(('GROUND+', '-H=8,1,0.5,.001,0.1,0.1;--geo-translate=1,0,0,-1'))    # helix hanging from the plane
    M.append(('GROUND+', '--medium=0,0,0;--medium=0,0,3'))
    M.append(('GROUND+', '--radial-count=8'))
    M.append(('REALGROUND+', '--radial-count=8'))
    M.append(('REALGROUND+', '--boundary=circular'))
    M.append(('NO-GEOMETRY', 'default'))
    # load kinds the BASIC input cannot mix, in every attach order, with the BASIC input requested
    for form in ('z-then-rlc', 'rlc-then-z', 'rlc+skin', 'trap+insulation', 'laplace-then-z', 'z+skin'):
        M.append(('BASIC-MIXED', form))
    # load values in every given / zero / empty form, with each file writer requested
    for w in ('cmdline', 'basic'):
        for lv in ('rlc=0,6e-05,1e-10', 'rlc=5,0,1e-10', 'rlc=5,6e-05,0', 'rlc=0,0,1e-10', 'rlc=,6e-05,1e-10', 'rlc=5,,', 'trap=0,1e-6,5e-11', 'trap=2,1e-6,5e-11',
                   'load=0', 'load=0j', 'load=5', 'laplace=0,2e-9/1', 'laplace=1/0,3e-6', 'skin-c=1e6', 'skin-r=1e-6,1', 'insul=0.01,2.3,1', 'insul=0.01,1'):
            M.append(('WRITTEN', w + ':' + lv))
    M.append(('--trap-load+', '0,1e-6,1.1894e-9'))                     # loss-free trap (resonant near 4.6 MHz)
    M.append(('--bogus-option', '1'))
    return M


MENU = menu()


RULE = RULE + ' Family WRITTEN: 17 load-value forms (given / zero / empty fields of every load kind) with each file writer requested.'


def bounds(tier, seed):
    return dict(bases=list(BASES), menu=len(MENU), deviations=1 if tier == 'quick' else 2)


def apply_dev(argv, opt, val):
    """replace the first occurrence of the option, else append"""
    argv = list(argv)
    if val is None:
        return argv + [opt]
    if opt in ('SRC-BOUNDARY', 'LOAD-BOUNDARY'):
        info = base_info(tuple(argv))
        if info is None:
            return argv
        N, objs = info
        tag, n = objs[0] if 'obj2' not in val or len(objs) < 2 else objs[1]
        if val.startswith('abs'):
            addr = '%d' % (N if 'last' in val else N + 1)
        else:
            addr = '%d,%d' % (n if 'last' in val else n + 1, tag)
        if opt == 'SRC-BOUNDARY':
            return [a for a in argv if not a.startswith('--excitation-pulse')] + ['--excitation-pulse=' + addr]
        nl = 1 + sum(1 for a in argv if a.startswith(('--load', '--rlc-load', '--trap-load', '--laplace-load-a')))
        return argv + ['--load=50', '--attach-load=1,' + addr] if nl == 1 else argv + ['--attach-load=1,' + addr]
    if opt == 'DUP-FIRST-WIRE':
        i = argv.index('-w')
        v = argv[i + 1].split(',')
        if len(v) < 8:
            return argv            # the first wire is itself a malformed deviation: nothing to duplicate
        tag = v[:-8]
        n, c, r = v[-8], v[-7:-1], v[-1]
        if val == 'reversed':
            c = c[3:] + c[:3]
        if val == 'half':
            c = c[:3] + [repr((float(a) + float(b)) / 2) for a, b in zip(c[:3], c[3:])]
        return argv + ['-w', ','.join([n] + c + [r])]
    if opt == 'SWEEP-DOWN':
        return [a for a in argv if not a.startswith('--frequency-')] + ['--frequency-steps=' + val, '--frequency-increment=-5']
    if opt == 'TAPER-ONE-SEG':
        i = argv.index('-w')
        v = argv[i + 1].split(',')
        if len(v) < 8:
            return argv
        v[-8] = '1'
        argv[i + 1] = ','.join(v)
        return [a for a in argv if not a.startswith('--taper-wire')] + ['--taper-wire=%s,%s' % (v[0] if len(v) == 9 else '1', val)]
    if opt in ('GROUND+', 'REALGROUND+'):
        med = ['--medium=0,0,0'] if opt == 'GROUND+' else ['--medium=13,0.005,0']
        argv = [a for a in argv if not a.startswith(('--medium', '--boundary', '--radial'))] + med
        for ov in val.split(';'):
            o, v = ov.split('=', 1)
            if o == '--medium':
                argv = [a for a in argv if not a.startswith('--medium')]
            argv = argv + ([o + '=' + v] if o.startswith('--') else [o, v])
        return argv
    if opt == 'BASIC-MIXED':
        argv = [a for a in argv if not a.startswith(('--load', '--rlc', '--trap', '--laplace', '--attach-load', '--skin', '--insulation', '--output-basic'))]
        extra = {'z-then-rlc': ['--load=25+10j', '--rlc-load=5,2e-6,', '--attach-load=1,1', '--attach-load=2,2'],
                 'rlc-then-z': ['--load=25+10j', '--rlc-load=5,2e-6,', '--attach-load=2,2', '--attach-load=1,1'],
                 'rlc+skin': ['--rlc-load=5,2e-6,', '--attach-load=1,2', '--skin-effect-conductivity=1e6'],
                 'trap+insulation': ['--trap-load=2,1e-6,5e-11', '--attach-load=1,2', '--insulation-load=0.01,2.3'],
                 'laplace-then-z': ['--load=25+10j', '--laplace-load-a=1,2e-9', '--laplace-load-b=10,3e-6', '--attach-load=2,2', '--attach-load=1,1'],
                 'z+skin': ['--load=25+10j', '--attach-load=1,2', '--skin-effect-conductivity=1e6']}[val]
        return argv + extra + ['--output-basic-input=' + os.path.join(TMP, 'mixed.bas')]
    if opt == 'WRITTEN':
        w, lv = val.split(':', 1)
        kind, v = lv.split('=', 1)
        argv = [a for a in argv if not a.startswith(('--load', '--rlc', '--trap', '--laplace', '--attach-load', '--skin', '--insulation', '--output-'))]
        extra = {'rlc': ['--rlc-load=' + v, '--attach-load=1,2'], 'trap': ['--trap-load=' + v, '--attach-load=1,2'], 'load': ['--load=' + v, '--attach-load=1,2'],
                 'laplace': ['--laplace-load-a=' + v.split('/')[0], '--laplace-load-b=' + v.split('/')[-1], '--attach-load=1,2'],
                 'skin-c': ['--skin-effect-conductivity=' + v], 'skin-r': ['--skin-effect-resistivity=' + v], 'insul': ['--insulation-load=' + v]}[kind]
        return argv + extra + ['--output-%s=%s' % ('cmdline' if w == 'cmdline' else 'basic-input', os.path.join(TMP, 'written.txt'))]
    if opt == 'NO-GEOMETRY':
        out, skip = [], False
        for a in argv:
            if skip:
                skip = False
                continue
            if a in ('-w', '-a', '-H', '--wire', '--arc', '--helix'):
                skip = True
                continue
            if a.startswith(('--wire=', '--arc=', '--helix=', '--taper-wire', '--geo-', '--attach-load', '--load', '--rlc', '--trap', '--laplace',
                             '--skin', '--insulation', '--excitation')):
                continue
            out.append(a)
        return out
    if opt.endswith('+'):
        o = opt[:-1]
        extra = ['--attach-load=%d,1' % (1 + sum(1 for a in argv if a.startswith(('--load', '--rlc-load', '--trap-load', '--laplace-load-a'))))] if 'load' in o else []
        return argv + ([o + '=' + val] if o.startswith('--') else [o, val]) + extra
    alias = {'-f': '--frequency', '-w': '--wire', '-a': '--arc', '-H': '--helix'}
    for i, a in enumerate(argv):
        if a == opt and i + 1 < len(argv):
            argv[i + 1] = val
            return argv
        if a.startswith(opt + '='):
            argv[i] = opt + '=' + val
            return argv
    if opt.startswith('--'):
        return argv + [opt + '=' + val]
    return argv + [opt, val]


_INFO = {}


def base_info(argv):
    """(number of pulses, [(tag, pulses of that object)]) of an accepted argument list"""
    if argv not in _INFO:
        m, diag = cli.build_main(list(argv))
        _INFO[argv] = None if m is None else (len(m.pulses), [(g.tag, len(g.pulses)) for g in m.geo if len(g.pulses)])
    return _INFO[argv]


def classify(kind, r, out, err, argv):
    if kind == 'exc':
        return ('EXC', '%s@%s' % (r[0], r[1]), r[2])
    if kind == 'exit':
        return ('usage', '', '') if r == 2 else ('EXIT', 'code %s' % r, '')
    text = out + err
    tlines = [l for l in text.split('\n') if l.strip() and not l.startswith('Time ')]
    if r == 23:
        if 'CURRENT DATA' in out or 'SOURCE DATA' in out:
            return ('DIAG+REPORT', '', tlines[0][:80] if tlines else '')
        if len(tlines) != 1:
            return ('DIAG-LINES', '%d lines' % len(tlines), ' | '.join(tlines[:3])[:120])
        return ('diag', '', '')
    if r is None:
        if re.search(r'(?i)(?<![a-z])(nan|inf|infinity)(?![a-z])', out):
            mm_ = re.search(r'(?i)[^\n]*(?<![a-z])(nan|inf|infinity)(?![a-z])[^\n]*', out)
            return ('NONFINITE', '', mm_.group(0).strip()[:80])
        need = ['MININEC', 'FREQUENCY (MHZ)', 'NO. OF GEO-OBJECTS', 'ANTENNA GEOMETRY', 'NO. OF SOURCES', 'SOURCE DATA', 'CURRENT DATA']
        opts = [a.split('=', 1)[1] for a in argv if a.startswith('--option=')]
        has_nf = any(a.startswith('--near-field') for a in argv)
        if not opts:
            opts = ['near-field'] if has_nf else ['far-field']
        if 'far-field' in opts:
            need.append('PATTERN (DB)')
        if 'far-field-absolute' in opts:
            need.append('MAG(V/M)')
        if 'near-field' in opts:
            need.append('NEAR FIELDS')
        miss = [n for n in need if n not in out]
        if miss:
            return ('INCOMPLETE', miss[0], '')
        return ('report', '', '')
    return ('RETURN', repr(r)[:30], '')


def run(argv):
    kind, r, out, err = cli.run_main(argv)
    return classify(kind, r, out, err, argv)


GOOD = ('report', 'diag', 'usage')


def evaluate(c):
    base = BASES[c['base']]
    argv = base
    devs = [tuple(d) if isinstance(d, (list, tuple)) else MENU[d] for d in c['devs']]       # entries themselves (replays survive menu changes)
    for opt, val in devs:
        argv = apply_dev(argv, opt, val)
    cls = run(argv)
    viol = []
    label = '%s + %s' % (c['base'], ['%s=%s' % d for d in devs])
    if cls[0] not in GOOD:
        attributed = None
        if len(devs) > 1:
            for opt, val in devs:
                c1 = run(apply_dev(base, opt, val))
                if c1[:2] == cls[:2]:
                    attributed = (opt, val)
                    break
        sweep = any(a.startswith('--frequency-steps') and a.split('=')[1] not in ('0', '1') for a in argv) and \
            any(a.startswith('--frequency-increment') for a in argv)
        if cls[0] == 'DIAG+REPORT' and sweep:
            # call site: a diagnostic issued in a later step of a frequency sweep, after earlier steps were printed
            sig = 'DIAG+REPORT:later-sweep-step'
        elif not devs:
            sig = '%s:%s/base' % (cls[0], cls[1])
        elif attributed:
            sig = '%s:%s/%s=%s' % (cls[0], cls[1], attributed[0], vclass(attributed[1], attributed[0]))
        else:
            sig = '%s:%s/%s' % (cls[0], cls[1], '&'.join('%s=%s' % (o, vclass(v, o)) for o, v in sorted(devs, key=lambda d: d[0])))
        viol.append((sig, '%s -> %s %s %s' % (label, cls[0], cls[1], cls[2])))
    return dict(viol=viol, canon=label, nontriv=bool(devs), outcome=cls[0], dev=0.0)


def cases(tier, seed):
    for b in BASES:
        yield dict(base=b, devs=[])
        for i in range(len(MENU)):
            yield dict(base=b, devs=[list(MENU[i])])
    if tier != 'thorough':
        # the two listed findings that need a pair of deviations are part of the quick tier too
        idx = {}
        for i, ov in enumerate(MENU):
            idx.setdefault(tuple(ov), i)
        for b, x, y in (('geo', ('-a', '3,1,0,360,.001'), ('--geo-rotate', '1,0,0,-100')),
                        ('lds', ('--frequency-steps', '50'), ('-w', '4,0,0,0,0,0,1,5'))):
            yield dict(base=b, devs=[list(MENU[k]) for k in sorted([idx[x], idx[y]])])
    if tier == 'thorough':
        # pairs over the menu without the extreme-magnitude entries (1e300 / 1e-300): those are covered as single
        # deviations (most are listed findings) and would only multiply the same overflow under other names
        calm = [i for i in range(len(MENU)) if not any(x in vclass(MENU[i][1]) for x in ('huge', 'tiny'))]
        for b in BASES:
            for i, j in itertools.combinations(calm, 2):
                if MENU[i][0] == MENU[j][0] and MENU[i][1] is not None:
                    continue     # both would replace the same option: equals a single deviation
                yield dict(base=b, devs=[list(MENU[i]), list(MENU[j])])
