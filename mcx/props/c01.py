"""C01 Power balance: source power = load dissipation + radiated far-field power."""
import itertools, math
import numpy as np
from scipy.integrate import simpson
from mcx import geom, obs
from mcx.props import c06

PID = 'C01'
CHUNK = 1
TOLERANCE = '|P_src - P_load - P_rad| <= 1.5 % of the apparent source power (free space, ideal ground); P_rad + P_load <= P_src + 1.5 % over real ground'
RULE = ('Lattice structures with <= D wires (generic and axis-aligned lattices) at 5..9 segments per edge plus standard '
        'resonant antennas (oblique half-wave dipole, sloping quarter-wave monopole, inverted L, bent dipole, 1-lambda '
        'loop of 4 wires) and tapered-wire / arc / helix structures x environments {free, ideal ground, 3 single real '
        'media, 2 and 3 media linear and circular (all at height 0; a stepped ground is a listed known finding), radials} x source sets {1 source at up to 3 positions, 2 and 3 sources '
        'with complex voltages} x load sets {none, 50 ohm on a non-fed pulse, 30+40j on the fed pulse (also grounded), '
        '5 ohm on all pulses, skin effect 1e5 S/m, insulation}. Each case: solve, integrate the reported gain over the '
        'sphere (Simpson x periodic trapezoid on a 2.5 x 5 degree grid), compare with P_src and P_load computed by the '
        'harness from the applied voltages, Mininec.current and load.impedance. Domain: stated thin-wire rules AND no '
        'exact-kernel misfire AND segmentation-converged (5 %). State = (structure, environment, sources, loads); '
        'transition = one solve + one pattern. Non-trivial: real power >= 30 % of apparent power.')
ASSUMPTIONS = ['exact-kernel misfire predicate and 5 % segmentation-convergence predicate delimit the enumeration (DESIGN 2.2); outside them two concrete inputs are listed known findings',
               'quadrature error of the sphere integral < 0.05 % (checked on a halved grid)']

REAL_ENVS = [dict(media=[[13., 5e-3, 0.]]), dict(media=[[80., 4., 0.]]), dict(media=[[3., 1e-4, 0.]]),
             dict(media=[[13., 5e-3, 0., 2.0], [4., 1e-3, 0.]], boundary='linear'),
             dict(media=[[13., 5e-3, 0., 1.5], [80., 4., 0., 6.], [3., 1e-4, 0.]], boundary='circular'),
             dict(media=[[13., 5e-3, 0., 3.0], [4., 1e-3, 0.]], boundary='circular', radials=[16, 1e-3])]


RULE = RULE + ' Also two arrays of exactly vertical wires standing at different places (phased monopoles over ground, phased dipoles in free space).'
RULE = RULE + ' Load sets include one load object on every pulse and once more on two of them.'


def bounds(tier, seed):
    return dict(max_wires=2 if tier == 'quick' else 3, variant=geom.variant(seed), grid='2.5 x 5 degrees')


def misfire(m):
    """exact-kernel criterion (d0+d3)/L <= 1.1 met by an OFF-AXIS observer, for the observer/source combinations of
    the matrix fill (vector potential: observer pulse point, source half segment; scalar potential: observer
    half-segment end, source full segment), objects joined directly or through a common neighbour"""
    for pm in m.pulses:
        pmpt = np.array(pm.point, float)
        obs_v = [pmpt]
        obs_s = [pmpt + (np.array(e, float) - pmpt) * .5 for e in pm.ends]
        for pn in m.pulses:
            if not pm.geobj.is_connected(pn.geobj):
                continue
            pt = np.array(pn.point, float)
            for h, (e, s) in enumerate(zip(pn.ends, pn.segs)):
                e = np.array(e, float)
                L = s.seg_len
                for obsl, (a, b) in ((obs_v, (pt, pt + (e - pt) * .5)), (obs_s, (pt, e))):
                    for o in obsl:
                        d0, d3 = np.linalg.norm(o - a), np.linalg.norm(o - b)
                        if (d0 + d3) / L <= 1.1:
                            dist = np.linalg.norm(np.cross(a - o, b - a)) / np.linalg.norm(b - a)
                            if dist > 1e-6 * L:
                                return True
    return False


def sphere_fraction(m, ground, fine=False):
    """integral of the reported gain over the sphere / 4 pi (= P_rad / P_src)"""
    dz, da = (1.25, 2.5) if fine else (2.5, 5.0)
    nz = int(round((90 if ground else 180) / dz)) + 1
    na = int(round(360 / da))
    _, _, g = obs.far(m, (0., dz, nz), (0., da, na))
    g = np.array(g)[..., 2]
    if g.shape[0] != nz:
        g = g.T
    G = np.where(g > -900, 10 ** (g / 10), 0.0)
    th = np.radians(np.arange(nz) * dz)
    return float(simpson(G.mean(axis=1) * np.sin(th), x=th) * 2 * np.pi / (4 * np.pi))


def standard(seed):
    rot, sc, f = geom.variant(seed)
    lam = geom.C_MININEC / f
    R = geom.rotmat(rot)
    r = 5e-4 * lam
    out = []
    d = R @ np.array([0., 0., 1.])
    c0 = R @ np.array([0.3, 0.2, 0.1]) * lam
    out.append(('dipole', 'free', [geom.wire(c0 - d * 0.235 * lam, c0 + d * 0.235 * lam, 20, r)], [dict(pulse=9, v=[1., 0.])]))
    a = c0 - d * 0.12 * lam
    v1, v2 = R @ np.array([0.8, 0., 0.6]), R @ np.array([-0.8, 0., 0.6])
    out.append(('vee', 'free', [geom.wire(a + v1 * 0.24 * lam, a, 10, r), geom.wire(a, a + v2 * 0.24 * lam, 10, r)], [dict(pulse=9, v=[1., 0.])]))
    s = 0.25 * lam
    sq = [np.array(p) * s for p in ([0, 0, 0], [1, 0, 0.3], [1, 1, 0.6], [0, 1, 0.3])]
    sq = [R @ p for p in sq]
    out.append(('loop', 'free', [geom.wire(sq[i], sq[(i + 1) % 4], 10, r) for i in range(4)], [dict(pulse=4, v=[1., 0.])]))
    # over ground
    out.append(('monopole', 'ground', [geom.wire([0, 0, 0], [0.06 * lam, 0.03 * lam, 0.235 * lam], 10, r)], [dict(pulse=0, v=[1., 0.])]))
    out.append(('monopole-ud', 'ground', [geom.wire([0.06 * lam, 0.03 * lam, 0.235 * lam], [0, 0, 0], 10, r)], [dict(pulse=9, v=[1., 0.])]))
    out.append(('inv-L', 'ground', [geom.wire([0, 0, 0], [0, 0, 0.1 * lam], 5, r), geom.wire([0, 0, 0.1 * lam], [0.12 * lam, 0.09 * lam, 0.1 * lam], 7, r)],
                [dict(pulse=0, v=[1., 0.])]))
    out.append(('dipole-over-ground', 'ground', [geom.wire([0, 0, 0.2 * lam], [0.3 * lam, 0.36 * lam, 0.25 * lam], 20, r)], [dict(pulse=9, v=[1., 0.])]))
    # quarter-wave slopers leaning into each quadrant (50 degrees elevation), grounded at end 1 and at end 2
    import math
    for az in (45., 135., 225., 315.):
        e, a_ = math.radians(50.), math.radians(az)
        top = [0.25 * lam * math.cos(e) * math.cos(a_), 0.25 * lam * math.cos(e) * math.sin(a_), 0.25 * lam * math.sin(e)]
        out.append(('sloper%g' % az, 'ground', [geom.wire([0, 0, 0], top, 10, r)], [dict(pulse=0, v=[1., 0.])]))
        out.append(('sloper%g-ud' % az, 'ground', [geom.wire(top, [0, 0, 0], 10, r)], [dict(pulse=9, v=[1., 0.])]))
    # arrays of exactly vertical wires standing at different places (nothing about them is rotationally symmetric),
    # fed with different phases
    out.append(('varray-gnd', 'ground', [geom.wire([0, 0, 0], [0, 0, 0.24 * lam], 10, r), geom.wire([0.25 * lam, 0.1 * lam, 0], [0.25 * lam, 0.1 * lam, 0.24 * lam], 10, r)],
                [dict(pulse=0, v=[1., 0.]), dict(pulse=10, v=[0., -1.])]))
    out.append(('varray-free', 'free', [geom.wire([0, 0, -0.235 * lam], [0, 0, 0.235 * lam], 20, r), geom.wire([0.2 * lam, 0.15 * lam, 0.235 * lam], [0.2 * lam, 0.15 * lam, -0.235 * lam], 20, r)],
                [dict(pulse=9, v=[1., 0.]), dict(pulse=28, v=[0.5, 0.5])]))
    return f, lam, out


def cases(tier, seed):
    D = 2 if tier == 'quick' else 3
    f, lam, std = standard(seed)
    for name, where, ws, srcs in std:
        envs = ['free'] if where == 'free' else (['ideal'] + REAL_ENVS)
        for env in envs:
            for ls in ('none', 'fed', 'all5', 'skin', 'insul', 'other50', 'all5twice'):
                yield dict(kind='std', name=name, env=env, f=f, lam=lam, wires=ws, srcs=srcs, loadset=ls)
    for c in c06.extras(tier, seed):
        if 'fine-fixed' in c['extra']:
            continue
        yield dict(kind='std', name=c['extra'], env=c['env'], f=c['f'], lam=c['lam'], wires=c['descs'][0], srcs=c['srcs'], loadset='none')
        yield dict(kind='std', name=c['extra'], env=c['env'], f=c['f'], lam=c['lam'], wires=c['descs'][0], srcs=c['srcs'], loadset='all5')
    for ground, special in ((False, False), (True, False), (False, True), (True, True)):
        P, f, lam = geom.lattice(seed, ground=ground, special=special)
        pts = [list(map(float, p)) for p in P]
        for es in geom.edge_sets(5, D):
            for resonant in (False, True):
                Q, qpts = P, pts
                if resonant:
                    # the same structure scaled to its first resonance (total conductor length 0.48 lambda, 0.25 lambda
                    # for a connected structure standing on the ground): real power dominates, the 1.5 % bound is sharp
                    if len(es) > 2 or not geom.connected(es):
                        continue
                    total = sum(np.linalg.norm(P[a] - P[b]) for a, b in es)
                    on_gnd = ground and any(abs(P[v][2]) < 1e-12 for e in es for v in e)
                    g = (0.25 if on_gnd else 0.48) * lam / total
                    Q = [p * g for p in P]
                    qpts = [list(map(float, p)) for p in Q]
                nseg = [geom.auto_nseg(np.linalg.norm(Q[a] - Q[b]), 0.02 * lam, nmin=4) for a, b in es]
                for flip in (0, 1):
                    if flip and not ground:
                        continue
                    st = [dict(a=(b if flip else a), b=(a if flip else b), n=nseg[i], r=(2e-4 if i % 2 == 0 else 5e-5) * lam) for i, (a, b) in enumerate(es)]
                    envs = ['free'] if not ground else (['ideal'] + (REAL_ENVS[:2] if tier == 'quick' else REAL_ENVS))
                    for env in envs:
                        yield dict(kind='lat', env=env, f=f, lam=lam, pts=qpts, st=st, resonant=resonant)
    # fixed (seed independent) known-finding inputs
    lam = 10.0
    f = geom.C_MININEC / lam
    pts = [np.array(p, float) for p in geom.BASE5]
    yield dict(kind='std', name='KF-misfire', env='free', f=f, lam=lam, fixed=True, loadset='none',
               wires=[geom.wire(pts[2], pts[0], 4, 3e-3), geom.wire(pts[1], pts[2], 3, 3e-3), geom.wire(pts[2], pts[4], 3, 3e-3)],
               srcs=[dict(pulse=4, v=[1., 0.])])
    # stepped ground (media at different heights): currents are those over flat ideal ground, the far field is not
    lam = geom.C_MININEC / 30.0
    yield dict(kind='std', name='KF-stepped-ground', fixed=True, loadset='none', f=30.0, lam=lam,
               env=dict(media=[[13., 5e-3, 0., 1.5], [80., 4., -1., 6.], [3., 1e-4, -3.]], boundary='circular'),
               wires=[geom.wire([0, 0, 0.2 * lam], [0.3 * lam, 0.36 * lam, 0.25 * lam], 20, 5e-4 * lam)], srcs=[dict(pulse=9, v=[1., 0.])])


def load_set(m, name, fed):
    import mininec.mininec as mm
    N = len(m.pulses)
    if name == 'fed':
        m.register_load(mm.Impedance_Load(30 + 40j), fed)
    elif name == 'other50':
        m.register_load(mm.Impedance_Load(50 + 0j), (fed + 2) % N)
    elif name == 'all5':
        m.register_load(mm.Impedance_Load(5 + 0j))
    elif name == 'all5twice':
        # 15 Ohm on every pulse and the same load object once more on two of them (it then dissipates twice there)
        ld = mm.Impedance_Load(15 + 0j)
        m.register_load(ld)
        m.register_load(ld, fed)
        m.register_load(ld, (fed + 2) % N)
    elif name == 'skin':
        for w in m.geo:
            m.register_load(mm.Skin_Effect_Load(w, conductivity=1e5, all_wires=True), None, w.tag)
        m.fix_distributed_loads()
    elif name == 'insul':
        for w in m.geo:
            m.register_load(mm.Insulation_Load(w, w.r_orig * 2, 2.3, all_wires=True), None, w.tag)
        m.fix_distributed_loads()


def balance(m, ground, real, label, viol, stat):
    """evaluate the power balance of a solved model; returns (residual, P/S)"""
    P_src = sum(0.5 * (s.voltage * np.conj(m.current[s.idx])).real for s in m.sources)
    S = sum(abs(0.5 * s.voltage * np.conj(m.current[s.idx])) for s in m.sources)
    chk_api = abs(m.power - P_src) / S
    if chk_api > 1e-12:
        viol.append(('POWER-API', '%s: Mininec.power %g differs from sum Re(V I*)/2 = %g' % (label, m.power, P_src)))
    P_load = 0.0
    for ld in m.loads:
        for p in ld.pulses:
            P_load += 0.5 * abs(m.current[p.idx]) ** 2 * ld.impedance(m.f, p).real
    if not (P_src > 0):
        return None, 0.0
    frac = sphere_fraction(m, ground)
    P_rad = P_src * frac
    # the gain that was integrated is normalised by the delivered power: a requested power level / distance for the
    # V/m table must leave it alone (coarse grid, same object)
    zg, ag = (5., 20., 5), (0., 72., 5)
    _, _, g0 = obs.far(m, zg, ag)
    _, _, g1 = obs.far(m, zg, ag, pwr=100., dist=50.)
    g0, g1 = np.array(g0)[..., 2], np.array(g1)[..., 2]
    msk = g0 > g0.max() - 40
    if np.abs(g0 - g1)[msk].max() > 1e-6:
        viol.append(('BALANCE-power-level', '%s: integrated gain changes by %.3g dB when a power level of 100 W is requested for the V/m table'
                     % (label, np.abs(g0 - g1)[msk].max())))
    res = (P_src - P_load - P_rad) / S
    if real:
        if res < -0.015:
            viol.append(('BALANCE-real', '%s: radiated + dissipated power exceeds the source power by %.2f %% of the apparent power' % (label, -100 * res)))
    else:
        if abs(res) > 0.015:
            viol.append(('BALANCE-%s' % ('ground' if ground else 'free'),
                         '%s: P_src=%.4g P_load=%.4g P_rad=%.4g: imbalance %.2f %% of the apparent power (P/S=%.2f)' % (label, P_src, P_load, P_rad, 100 * res, P_src / S)))
    return res, P_src / S


def evaluate(c):
    import mininec.mininec as mm
    env = c['env']
    ground = env != 'free'
    real = ground and env != 'ideal'
    viol, canon, nontriv = [], [], []
    worst, wn, ev = 0.0, None, 0
    skips = {}
    if c['kind'] == 'std':
        case = dict(f=c['f'], env=env, wires=c['wires'])
        label = '%s|%s|%s' % (c['name'], 'real%d' % len(env['media']) if real else env, c['loadset'])
        srcsets = [c['srcs']]
        loadsets = [c['loadset']]
    else:
        pts = [np.array(p) for p in c['pts']]
        case = dict(f=c['f'], env=env, wires=[geom.wire(pts[e['a']], pts[e['b']], e['n'], e['r']) for e in c['st']])
        reason = geom.domain(case, c['lam'], ground=ground, joined_neighbour_ok=False)
        if reason:
            return dict(viol=[], skipped='domain:' + reason, evals=0)
        label = '%s|%s' % ('real%d' % len(env['media']) if real else env, [(e['a'], e['b'], e['n']) for e in c['st']])
        srcsets = None
        loadsets = ['none', 'fed', 'all5', 'other50', 'skin']
    try:
        m0 = geom.build(case)
    except ValueError as e:
        return dict(viol=[], skipped='rejected:' + str(e)[:30], evals=0)
    N = len(m0.pulses)
    if N < 2:
        return dict(viol=[], skipped='too-few-pulses', evals=0)
    if not c.get('fixed') and misfire(m0):
        return dict(viol=[], skipped='exact-kernel-misfire', evals=0)
    if srcsets is None:
        single = [p.idx for p in m0.pulses if len(geom.pulses_at(geom.pulse_by_point(m0), p.point)) == 1]
        pos = list(dict.fromkeys([single[0], single[len(single) // 2], single[-1]]))
        srcsets = [[dict(pulse=p, v=[1., 0.])] for p in pos]
        if len(pos) >= 2:
            srcsets.append([dict(pulse=pos[0], v=[1., 0.]), dict(pulse=pos[-1], v=[0.5, -0.5])])
        if len(pos) >= 3:
            srcsets.append([dict(pulse=pos[0], v=[1., 0.]), dict(pulse=pos[1], v=[0., 1.]), dict(pulse=pos[2], v=[-0.3, 2.])])
    for si, srcs in enumerate(srcsets):
        # segmentation convergence: feed impedances of the model with all segment counts doubled
        def solved(case_, ls):
            m = geom.build(dict(case_, sources=srcs) if case_ is case else dict(case_))
            load_set(m, ls, m.sources[0].idx)
            m.compute()
            return m
        m = solved(case, 'none')
        ev += 1
        if not c.get('fixed') and c['kind'] == 'lat':
            dbl = dict(case, wires=[dict(w, n=2 * w['n']) for w in case['wires']])
            pm = geom.pulse_by_point(m)
            gs = [dict(at=list(map(float, m.pulses[s['pulse']].point)), dir=list(geom.orient(m.pulses[s['pulse']])), v=s['v']) for s in srcs]
            md = geom.build(dict(dbl, sources=gs))
            md.compute()
            ev += 1
            za = np.array([s.impedance for s in m.sources])
            zb = np.array([s.impedance for s in md.sources])
            if np.max(np.abs(za - zb) / np.abs(zb)) > 0.05:
                skips['not-converged(5%)'] = skips.get('not-converged(5%)', 0) + 1
                continue
        for ls in loadsets:
            mm_ = m if ls == 'none' else solved(case, ls)
            ev += 1
            lab = '%s|src%d|%s' % (label, si, ls)
            res, ps = balance(mm_, ground, real, lab, viol, None)
            if res is None:
                skips['non-positive input power'] = skips.get('non-positive input power', 0) + 1
                continue
            x = (max(0.0, -res) if real else abs(res)) / 0.015
            if x > worst:
                worst, wn = x, lab
            canon.append(lab)
            nontriv.append(ps >= 0.3)
            if ls == 'other50' and N >= 4:
                # the same load object attached to one more pulse AFTER the solve, solved again on the same object:
                # the balance must hold for the loads that are registered now
                fed = mm_.sources[0].idx
                mm_.register_load(mm_.loads[0], (fed + 3) % N)
                mm_.compute()
                ev += 1
                res2, ps2 = balance(mm_, ground, real, lab + '+attached-after-solve', viol, None)
                if res2 is not None:
                    canon.append(lab + '+attached-after-solve')
                    nontriv.append(True)
                    x = (max(0.0, -res2) if real else abs(res2)) / 0.015
                    if x > worst:
                        worst, wn = x, lab + '+attached-after-solve'
    return dict(viol=viol[:6], canon=canon, nontriv=nontriv, trans=ev, traces=len(canon), evals=ev, dev=worst * 0.015,
                outcome='%s' % ('real' if real else env), note=wn, skips=skips)
