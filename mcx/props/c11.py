"""C11 Real ground changes only the far field, consistently with its limits."""
import itertools, math
import numpy as np
from mcx import geom, obs

PID = 'C11'
CHUNK = 1
TOLERANCE = 'currents/impedances identical (1e-12); sigma->inf: < 1e-3 dB at 1e12 (6.6e-6 dB at 30 MHz, growing with sqrt(f)) and monotone from 1e3; split / far boundary: 1e-9 dB'
RULE = ('In-domain ground-lattice structures (<=2 wires quick, <=3 thorough; generic and axis-aligned lattice; source on '
        'an interior or grounded pulse, lumped loads on a grounded and on another pulse) x media alphabets: eps {1,4,13,80} x '
        'sigma {1e-4,5e-3,4,1e3,1e6,1e9,1e12}; 1..4 media, linear and circular boundaries with boundary coordinates below / '
        'between / beyond the reflection points computed by the harness from pulse heights and the direction grid, heights '
        '{0,-2,-10}; radials {0,8,120}. Oracles: (1) currents and impedances equal those over ideal ground for EVERY media '
        'configuration; (2) deviation from the ideal pattern decreases with sigma and vanishes at 1e12; (3) splitting any '
        'non-radial medium into 2..3 pieces with identical constants: identical pattern; (4) appending a medium beyond '
        'every reflection point: identical pattern for every (eps, sigma, height) of the appended medium. '
        '(5) the media written as command-line options give the same Medium objects and pattern. '
        'State = (structure, media configuration); transition = one solve / pattern. Non-trivial: more than one medium, '
        'radials, or a loaded grounded pulse.')
ASSUMPTIONS = ['reflection point of a pulse at height z towards (theta, phi) is z*tan(theta) along phi (specular reflection), measured as x (linear) or radius (circular)']

ZEN = (0., 8.9, 11)      # 0 .. 89 degrees zenith: elevation >= 1 degree
AZI = (10., 47., 8)      # deliberately not symmetric under phi -> -phi or phi -> phi + 180


def bounds(tier, seed):
    return dict(max_wires=2 if tier == 'quick' else 3, variant=geom.variant(seed), zenith=ZEN, azimuth=AZI)


def cases(tier, seed):
    D = 2 if tier == 'quick' else 3
    for special in (False, True):
        P, f, lam = geom.lattice(seed, ground=True, special=special)
        pts = [list(map(float, p)) for p in P]
        k = 0
        for es in geom.edge_sets(5, D):
            nseg = [geom.auto_nseg(np.linalg.norm(P[a] - P[b]), 0.05 * lam) for a, b in es]
            for flip in (0, 1):
                st = [dict(a=(b if flip else a), b=(a if flip else b), n=nseg[i], r=2e-4 * lam) for i, (a, b) in enumerate(es)]
                case = dict(f=f, env='ideal', wires=[geom.wire(P[e['a']], P[e['b']], e['n'], e['r']) for e in st])
                if geom.domain(case, lam, ground=True):
                    continue
                k += 1
                if tier == 'quick' and k % 3 != 1:
                    continue
                yield dict(f=f, lam=lam, pts=pts, st=st)


def pattern(case, env):
    m = geom.build(dict(case, env=env))
    m.compute()
    et, ep, g = obs.far(m, ZEN, AZI)
    return m, np.array(g)


def reflection_extent(m, boundary):
    """range of the reflection coordinate over all pulses and directions of the grid"""
    vals = []
    for p in m.pulses:
        x, y, z = [float(v) for v in p.point]
        for i in range(ZEN[2]):
            th = math.radians(ZEN[0] + i * ZEN[1])
            t4 = z * math.tan(th)
            for j in range(AZI[2]):
                ph = math.radians(AZI[0] + j * AZI[1])
                if boundary == 'linear':
                    vals.append(x + t4 * math.cos(ph))
                else:
                    vals.append(math.hypot(x + t4 * math.cos(ph), y + t4 * math.sin(ph)))
    return min(vals), max(vals)


def evaluate(c):
    pts = [np.array(p) for p in c['pts']]
    case = dict(f=c['f'], wires=[geom.wire(pts[e['a']], pts[e['b']], e['n'], e['r']) for e in c['st']])
    m0 = geom.build(dict(case, env='ideal'))
    N = len(m0.pulses)
    gnd = [p.idx for p in m0.pulses if p.ground.any()]
    inner = [p.idx for p in m0.pulses if not p.ground.any() and p.geo[0] is p.geo[1]]
    if not inner and not gnd:
        return dict(viol=[], skipped='no-pulse', evals=0)
    variants = []
    src = inner[0] if inner else gnd[0]
    loads = []
    if gnd:
        loads.append(dict(kind='z', z=[25., 40.], pulse=gnd[0]))
    if len(inner) > 1:
        loads.append(dict(kind='rlc', rlc=[2., 1e-6, None], pulse=inner[-1]))
    variants.append((src, loads))
    if gnd:
        variants.append((gnd[-1], []))
    viol, canon, nontriv = [], [], []
    worst, wn = 0.0, None
    ev = 0

    def chk(sig, x, tol, msg):
        nonlocal worst, wn
        if tol > 0 and x / tol > worst:
            worst, wn = x / tol, sig
        if not (x <= tol):
            viol.append((sig, '%s (%.3g > %.3g)' % (msg, x, tol)))
    und = sorted((e['a'], e['b'], e['n']) for e in c['st'])
    for vi, (src, loads) in enumerate(variants):
        cs = dict(case, sources=[dict(pulse=src, v=[1.0, 0.0])], loads=loads)
        mi, gi = pattern(cs, 'ideal')
        ev += 1
        if not (mi.power > 0):
            continue
        msk = gi[..., 2] > gi[..., 2].max() - 50
        lo_l, hi_l = reflection_extent(mi, 'linear')
        lo_c, hi_c = reflection_extent(mi, 'circular')
        configs = []
        # single media over the whole constant menu
        for eps in (1., 4., 13., 80.):
            for sig in (1e-4, 5e-3, 4., 1e3, 1e6, 1e9, 1e12):
                configs.append(('1|%g|%g' % (eps, sig), dict(media=[[eps, sig, 0.]])))
        mid_l, mid_c = 0.5 * (lo_l + hi_l), 0.5 * (lo_c + hi_c)
        for b, lo, mid, hi in (('linear', lo_l, mid_l, hi_l), ('circular', lo_c, mid_c, hi_c)):
            for pos, x in (('below', lo - 1.0), ('between', mid), ('beyond', hi + 1.0)):
                if b == 'circular' and x <= 0:
                    x = 0.01
                configs.append(('2|%s|%s' % (b, pos), dict(media=[[13., 5e-3, 0., x], [4., 1e-3, -2.]], boundary=b)))
                configs.append(('3|%s|%s' % (b, pos), dict(media=[[13., 5e-3, 0., x], [80., 4., -2., x + 3.], [3., 1e-4, -10.]], boundary=b)))
            configs.append(('4|%s' % b, dict(media=[[13., 5e-3, 0., mid], [80., 4., 0., mid + 2.], [4., 1e-3, -2., hi + 5], [3., 1e-4, -10.]], boundary=b)))
        for nr in (8, 120):
            configs.append(('rad%d' % nr, dict(media=[[13., 5e-3, 0., mid_c], [4., 1e-3, -2.]], boundary='circular', radials=[nr, 1e-3])))
        pats = {}
        for name, env in configs:
            try:
                mr, gr = pattern(cs, env)
            except ValueError as e:
                viol.append(('MEDIA-REJECTED', '%s: %s' % (name, e)))
                continue
            ev += 1
            pats[name] = gr
            # (1) ground constants do not influence currents and impedances
            dI = float(np.abs(mr.current - mi.current).max() / np.abs(mi.current).max())
            dZ = abs(mr.sources[0].impedance - mi.sources[0].impedance) / abs(mi.sources[0].impedance)
            chk('CURRENTS-' + ('loaded-gnd' if loads and gnd else 'plain'), max(dI, dZ), 1e-12,
                'media %s: currents / feed impedance differ from ideal ground (Z %s vs %s)' % (name, mr.sources[0].impedance, mi.sources[0].impedance))
            canon.append('%s|v%d|%s' % (und, vi, name))
            nontriv.append(len(env['media']) > 1 or bool(loads and gnd))
        # (2) sigma -> infinity
        for eps in (1., 4., 13., 80.):
            devs = []
            for sig in (1e3, 1e6, 1e9, 1e12):
                g = pats.get('1|%g|%g' % (eps, sig))
                if g is None:
                    continue
                devs.append(float(np.abs(g[..., 2] - gi[..., 2])[msk].max()))
            if len(devs) == 4:
                chk('SIGMA-LIMIT', devs[-1], 1e-3, 'eps=%g sigma=1e12: pattern still %.3g dB from ideal ground' % (eps, devs[-1]))
                for a, b in zip(devs[:-1], devs[1:]):
                    chk('SIGMA-MONOTONE', b, a + 1e-12, 'eps=%g: deviation from ideal ground grows with conductivity: %s' % (eps, devs))
        # (3) split and (4) far boundary
        for b, hi in (('linear', hi_l), ('circular', hi_c)):
            base_env = dict(media=[[13., 5e-3, 0.]])
            _, g1 = pattern(cs, base_env)
            for x in (pos for pos in ((lo_l if b == 'linear' else lo_c) - 0.5, 0.5 * ((lo_l if b == 'linear' else lo_c) + hi), hi + 0.5) if b == 'linear' or pos > 0):
                _, g2 = pattern(cs, dict(media=[[13., 5e-3, 0., x], [13., 5e-3, 0.]], boundary=b))
                _, g3 = pattern(cs, dict(media=[[13., 5e-3, 0., x], [13., 5e-3, 0., x + 0.7], [13., 5e-3, 0.]], boundary=b))
                ev += 2
                chk('SPLIT-' + b, float(np.abs(g2 - g1)[g1 > -200].max()), 1e-9, 'splitting a medium at %s coordinate %.3g changes the pattern' % (b, x))
                chk('SPLIT3-' + b, float(np.abs(g3 - g1)[g1 > -200].max()), 1e-9, 'splitting a medium into three pieces at %s coordinate %.3g changes the pattern' % (b, x))
                canon.append('%s|v%d|split|%s|%.3g' % (und, vi, b, x))
                nontriv.append(True)
            # split of the second (lower) medium of a two-media ground, first with radials in the circular case
            two = dict(media=[[13., 5e-3, 0., 0.5 * hi], [4., 1e-3, -2.]], boundary=b)
            twos = dict(media=[[13., 5e-3, 0., 0.5 * hi], [4., 1e-3, -2., 0.8 * hi], [4., 1e-3, -2.]], boundary=b)
            if b == 'circular':
                two['radials'] = [8, 1e-3]
                twos['radials'] = [8, 1e-3]
            _, ga = pattern(cs, two)
            _, gb = pattern(cs, twos)
            ev += 2
            chk('SPLIT-second-' + b, float(np.abs(ga - gb)[ga > -200].max()), 1e-9, 'splitting the second medium (%s) changes the pattern' % b)
            # ... and of the FIRST medium of two different media (the piece in the middle must keep its own boundary)
            lo_b = lo_l if b == 'linear' else lo_c
            xs = [lo_b + 0.3 * (hi - lo_b), lo_b + 0.6 * (hi - lo_b)] if b == 'linear' else [max(0.3 * hi, 0.01), max(0.6 * hi, 0.02)]
            onef = dict(media=[[13., 5e-3, 0., xs[1]], [80., 4., -1.5]], boundary=b)
            splf = dict(media=[[13., 5e-3, 0., xs[0]], [13., 5e-3, 0., xs[1]], [80., 4., -1.5]], boundary=b)
            spl4 = dict(media=[[13., 5e-3, 0., xs[0]], [13., 5e-3, 0., xs[1]], [80., 4., -1.5, hi + 2.], [80., 4., -1.5]], boundary=b)
            _, gc_ = pattern(cs, onef)
            _, gd_ = pattern(cs, splf)
            _, ge_ = pattern(cs, spl4)
            ev += 3
            chk('SPLIT-first-of-two-' + b, float(max(np.abs(gc_ - gd_)[gc_ > -200].max(), np.abs(gc_ - ge_)[gc_ > -200].max())), 1e-9,
                'splitting the first of two different media (%s boundary, pieces at %.3g / %.3g) changes the pattern' % (b, xs[0], xs[1]))
            # a first medium in which no reflection point lies has no influence: neither its constants nor its radials
            lo = lo_l if b == 'linear' else lo_c
            if b == 'linear' or lo > 0.05:
                xb = lo - 0.5 if b == 'linear' else 0.5 * lo
                pa = pattern(cs, dict(media=[[13., 5e-3, 0., xb], [4., 1e-3, 0.]], boundary=b))[1]
                pb = pattern(cs, dict(media=[[80., 4., 0., xb], [4., 1e-3, 0.]], boundary=b))[1]
                ev += 2
                chk('UNUSED-FIRST-' + b, float(np.abs(pa - pb)[pa > -200].max()), 1e-9, 'constants of a first medium without reflection points (%s boundary at %.3g, reflections from %.3g) change the pattern' % (b, xb, lo))
                if b == 'circular':
                    pr = pattern(cs, dict(media=[[13., 5e-3, 0., xb], [4., 1e-3, 0.]], boundary=b, radials=[16, 1e-3]))[1]
                    ev += 1
                    chk('UNUSED-RADIALS', float(np.abs(pa - pr)[pa > -200].max()), 1e-9, 'radials on a first medium without reflection points (radius %.3g, reflections from %.3g) change the pattern' % (xb, lo))
                canon.append('%s|v%d|unused|%s' % (und, vi, b))
                nontriv.append(True)
            # a highly conducting medium at height H beyond a first medium without reflection points acts as an ideal
            # ground plane at height H: same pattern as the antenna moved up by -H over ideal ground, carrying the same
            # currents (only for antennas without grounded pulses: those have their image built in)
            if not gnd and (b == 'linear' or lo > 0.05):
                for H in (-2.0, -0.7):
                    xb = lo - 0.5 if b == 'linear' else 0.5 * lo
                    mh, gh = pattern(cs, dict(media=[[13., 5e-3, 0., xb], [10., 1e12, H]], boundary=b))
                    up = dict(cs, wires=[dict(w, p1=[w['p1'][0], w['p1'][1], w['p1'][2] - H], p2=[w['p2'][0], w['p2'][1], w['p2'][2] - H]) for w in cs['wires']])
                    mu = geom.build(dict(up, env='ideal'))
                    mu.compute()
                    mu.current = mh.current.copy()
                    mu.power = mh.power
                    _, _, gu = obs.far(mu, ZEN, AZI)
                    gu = np.array(gu)
                    ev += 2
                    mk = gu[..., 2] > gu[..., 2].max() - 50
                    chk('HEIGHT-LIMIT-' + b, float(np.abs(gh[..., 2] - gu[..., 2])[mk].max()), 1e-3,
                        'medium of conductivity 1e12 at height %g: pattern differs from ideal ground at that height' % H)
                    canon.append('%s|v%d|height|%s|%g' % (und, vi, b, H))
                    nontriv.append(True)
            for eps, sig, h in ((3., 1e-4, -2.), (80., 4., 0.), (1., 1e12, -10.)):
                # the boundary is placed tightly beyond the farthest reflection point of this very direction grid
                xfar = hi * (1 + 1e-9) + 1e-9 if (eps, sig) != (80., 4.) else hi + 0.5
                _, g4 = pattern(cs, dict(media=[[13., 5e-3, 0., xfar], [eps, sig, h]], boundary=b))
                ev += 1
                chk('FAR-BOUNDARY-' + b, float(np.abs(g4 - g1)[g1 > -200].max()), 1e-9,
                    'a medium (%g, %g, height %g) beyond every reflection point (%s boundary at %.9g, reflections up to %.9g) changes the pattern' % (eps, sig, h, b, xfar, hi))
                canon.append('%s|v%d|far|%s|%g' % (und, vi, b, eps))
                nontriv.append(True)
            # (4b) the same for a ground that already has a lowered second medium with reflection points in it: the appended
            # medium (default height 0 / lower / higher) must not touch the media in front of it
            midb = mid_l if b == 'linear' else max(mid_c, 0.01)
            base2 = dict(media=[[13., 5e-3, 0., midb], [4., 1e-3, -2.]], boundary=b)
            _, gb2 = pattern(cs, base2)
            ev += 1
            for eps, sig, h in ((3., 1e-4, 0.), (80., 4., -5.), (13., 5e-3, -1.)):
                xfar = max(hi + 0.5, midb + 0.5)
                _, g5 = pattern(cs, dict(media=[[13., 5e-3, 0., midb], [4., 1e-3, -2., xfar], [eps, sig, h]], boundary=b))
                ev += 1
                chk('FAR-BOUNDARY-3rd-' + b, float(np.abs(g5 - gb2)[gb2 > -200].max()), 1e-9,
                    'a third medium (%g, %g, height %g) beyond every reflection point (%s boundary at %.6g, reflections up to %.6g) changes the pattern of a two-media ground' % (eps, sig, h, b, xfar, hi))
                canon.append('%s|v%d|far3|%s|%g|%g' % (und, vi, b, eps, h))
                nontriv.append(True)
    # (5) the same media written as command-line options describe the same ground: Medium attributes and pattern of the model
    # built by main() equal those of the model built through the API (first source/load variant only)
    from mcx import cli
    src, loads = variants[0]
    cs = dict(case, sources=[dict(pulse=src, v=[1.0, 0.0])], loads=[])
    for name, env in (('1', dict(media=[[13., 5e-3, 0.]])), ('2lin', dict(media=[[13., 5e-3, 0., 7.5], [4., 1e-3, -2.]], boundary='linear')),
                      ('2lin0', dict(media=[[13., 5e-3, 0., 0.], [4., 1e-3, -2.]], boundary='linear')),
                      ('3circ', dict(media=[[13., 5e-3, 0., 5.25], [80., 4., -1.5, 20.5], [3., 1e-4, -10.]], boundary='circular')),
                      ('rad', dict(media=[[13., 5e-3, 0., 8.5], [4., 1e-3, -2.]], boundary='circular', radials=[16, 1e-3]))):
        ma, ga = pattern(cs, env)
        mb, diag = cli.build_main(cli.argv(dict(case, env=env), ['--excitation-pulse=%d' % (src + 1)]))
        ev += 2
        canon.append('%s|cli|%s' % (und, name))
        nontriv.append(True)
        if mb is None:
            viol.append(('CLI-MEDIA-REJECTED', 'media %s as options: %s' % (name, diag[:120])))
            continue
        ta = [(x.permittivity, x.conductivity, x.height, x.coord, x.nradials, x.radius, x.boundary) for x in ma.media]
        tb = [(x.permittivity, x.conductivity, x.height, x.coord, x.nradials, x.radius, x.boundary) for x in mb.media]
        if ta != tb:
            viol.append(('CLI-MEDIA', 'media %s: options give %s, the values written are %s' % (name, tb, ta)))
            continue
        mb.compute()
        _, _, gb = obs.far(mb, ZEN, AZI)
        chk('CLI-MEDIA-PATTERN', float(np.abs(np.array(gb) - ga)[ga > -200].max()), 1e-9, 'pattern over media %s given as options differs from the API model' % name)
    # (6) ground described once and used for two models (another band first): the Medium objects carry no memory of
    # the model / frequency they served before
    import mininec.mininec as mm
    for name, env in (('1', dict(media=[[13., 5e-3, 0.]])), ('2circ', dict(media=[[13., 5e-3, 0., 6.5], [4., 1e-3, -2.]], boundary='circular'))):
        shared = geom.media_from(env)
        pats6 = []
        for ff in (c['f'] / 4, c['f']):
            mx = mm.Mininec(ff, geom.make_geo(case), media=shared)
            geom.add_sources(mx, [dict(pulse=src, v=[1.0, 0.0])])
            mx.compute()
            _, _, gx = obs.far(mx, ZEN, AZI)
            pats6.append(np.array(gx))
            ev += 1
        _, gfresh = pattern(cs, env)
        ev += 1
        chk('SHARED-MEDIA', float(np.abs(pats6[1] - gfresh)[gfresh > -200].max()), 1e-9,
            'media %s used before by a model at f/4: pattern differs from the one over newly built media with the same constants' % name)
        canon.append('%s|shared|%s' % (und, name))
        nontriv.append(True)
    # (7) a linear boundary moves with the antenna: structure and boundary shifted together along x (to negative
    # coordinates and far to positive ones) give the same pattern
    env0 = dict(media=[[13., 5e-3, 0., mid_l], [4., 1e-3, -2.]], boundary='linear')
    _, g0 = pattern(cs, env0)
    ev += 1
    for d in (-(hi_l + 3.0), -2 * mid_l, -mid_l, 25.0):       # -mid_l puts the boundary at exactly x = 0
        sh = dict(cs, wires=[dict(w, p1=[w['p1'][0] + d, w['p1'][1], w['p1'][2]], p2=[w['p2'][0] + d, w['p2'][1], w['p2'][2]]) for w in cs['wires']])
        _, g1 = pattern(sh, dict(media=[[13., 5e-3, 0., mid_l + d], [4., 1e-3, -2.]], boundary='linear'))
        ev += 1
        chk('SHIFT-LINEAR', float(np.abs(g1 - g0)[g0 > -200].max()), 1e-6, 'antenna and linear boundary shifted together by %.3g m along x: pattern changes' % d)
        canon.append('%s|shift|%.3g' % (und, d))
        nontriv.append(True)
    return dict(viol=viol[:8], canon=canon, nontriv=nontriv, trans=ev, traces=len(canon), evals=ev, dev=worst, outcome='gnd=%d' % len(gnd), note=wn)
