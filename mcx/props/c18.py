"""C18 Generated BASIC-MININEC input describes the same antenna."""
import itertools, glob, os, shlex, argparse, cmath, math
import numpy as np
from mcx import cli
from mcx.ref import basicin
from mcx.props import c15

PID = 'C18'
CHUNK = 4
TOLERANCE = 'geometry 1e-9 of the size (printed %.15g), radius 1e-7, voltages / load values 1e-5 (printed %g), feed impedance 5e-6'
RULE = ('Validation of the prompt automaton: all stored test/*.mini, *.mini12 answer files (which ran on the BASIC program) are '
        'consumed completely and re-create the pulse table of the corresponding .pym model. Exploration: the 4 base command '
        'lines of C15, every single deviation (thorough: every pair) of the C15 menu that BASIC can express plus source '
        'voltages {1, j, -1, 0.5-0.5j, 2 at 30 deg} x BASIC versions {9, 12, 13} x requested outputs {none, dBi, V/m with and without power '
        'and distance, near field with and without power}; the generated text is consumed prompt by prompt (every answer consumed, none '
        'left, none missing), the read-back case is compared with the model (frequency, environment and media, wires, '
        'sources with phase in degrees, loads in the units of the version) and rebuilt through the API (same pulse table, '
        'same feed impedance). State = (accepted command line, version, request); transition = write + read back. '
        'Non-trivial: a deviation, a complex voltage or a load is present.')
ASSUMPTIONS = ['prompt order as quoted in the writer comments and confirmed by the stored answer files that ran on the BASIC program']
VOLTS = ['1', '1j', '-1', '0.5-0.5j', '%r%+rj' % (2 * math.cos(math.radians(30)), 2 * math.sin(math.radians(30)))]
REQS = ['none', 'dbi', 'vm', 'near', 'vm0', 'near0']      # vm0 / near0: without a power level (and distance)


def bounds(tier, seed):
    return dict(menu=len(c15.MENU), versions=['9', '12', '13'], requests=REQS, deviations=1 if tier == 'quick' else 2)


def cases(tier, seed):
    for f in sorted(glob.glob(os.path.join(os.environ.get('PYMININEC_SRC', '/repo'), 'test', '*.mini*'))):
        yield dict(kind='stored', file=f)
    k = 0
    for b in c15.BASES:
        names = [x[0] for x in c15.MENU]
        for devs in [[]] + [[x] for x in names] + (list(map(list, itertools.combinations(names, 2))) if tier == 'thorough' else []):
            for vi, v in enumerate(VOLTS):
                if devs and vi and len(devs) > 1:
                    continue
                ver = ('9', '12', '13')[k % 3]
                req = REQS[(k // 3) % len(REQS)]
                k += 1
                yield dict(kind='gen', base=b, devs=devs, volt=v, version=ver, req=req)
        for ver in ('9', '12', '13'):
            for req in REQS:
                yield dict(kind='gen', base=b, devs=[], volt='0.5-0.5j', version=ver, req=req)


def model_of(argv):
    return cli.build_main(argv)


def close(a, b, rel):
    return abs(a - b) <= rel * max(abs(a), abs(b)) + 1e-300


def compare(m, c, version, viol, label):
    """model m (live) vs read-back answers c"""
    import mininec.mininec as mm
    if not close(c['f'], m.f, 1e-11):
        viol.append(('FREQUENCY', '%s: frequency %r written as %r' % (label, m.f, c['f'])))
    if (m.media is not None) != c['ground']:
        viol.append(('ENVIRONMENT', '%s: environment' % label))
    if m.media is not None:
        ideal = len(m.media) == 1 and m.media[0].is_ideal
        if ideal != (c['nmedia'] == 0) or (not ideal and len(m.media) != c['nmedia']):
            viol.append(('MEDIA-COUNT', '%s: %d media written as %d' % (label, len(m.media), c['nmedia'])))
        elif not ideal:
            for i, (a, b) in enumerate(zip(m.media, c['media'])):
                exp = dict(eps=a.permittivity, sigma=a.conductivity)
                if i > 0:
                    exp['height'] = a.height
                if a.next is not None:
                    exp['coord'] = a.coord
                if i == 0 and a.nradials:
                    exp['nradials'], exp['radius'] = a.nradials, a.radius
                for k, v in exp.items():
                    if k not in b or not close(float(b[k]), float(v), 1e-5):
                        viol.append(('MEDIA-' + k, '%s: medium %d %s=%r written as %r' % (label, i + 1, k, v, b.get(k))))
            if len(m.media) > 1 and c['boundary'] != m.media[0].boundary:
                viol.append(('MEDIA-boundary', '%s: boundary %s written as %s' % (label, m.media[0].boundary, c['boundary'])))
    # wires: every (emulated) wire = the straight segments of the model in object order
    exp = []
    for g in m.geo:
        if g.n_emulated_wires == 1:
            exp.append((g.n_segments, np.array(g.segments[0].p1, float), np.array(g.segments[-1].p2, float), g.r))
        else:
            for s in g.segments:
                exp.append((1, np.array(s.p1, float), np.array(s.p2, float), g.r))
    if len(exp) != len(c['wires']):
        viol.append(('WIRE-COUNT', '%s: %d (emulated) wires expected, %d written' % (label, len(exp), len(c['wires']))))
    else:
        size = max(1.0, max(np.abs(e[1]).max() for e in exp), max(np.abs(e[2]).max() for e in exp))
        mseg = m.min_seglen
        for i, (e, w) in enumerate(zip(exp, c['wires'])):
            d = max(np.abs(e[1] - np.array(w['p1'])).max(), np.abs(e[2] - np.array(w['p2'])).max())
            if e[0] != w['n'] or d > max(1e-9 * size, 1.1e-3 * mseg):
                viol.append(('WIRE-GEOMETRY', '%s: wire %d: %d segments %s-%s written as %d %s-%s' % (label, i + 1, e[0], e[1], e[2], w['n'], w['p1'], w['p2'])))
                break
            if not close(e[3], w['r'], 1e-7):
                viol.append(('WIRE-RADIUS', '%s: wire %d radius %r written as %r' % (label, i + 1, e[3], w['r'])))
                break
    # BASIC semantics of the written coordinates: an end is grounded iff z == 0 exactly, two ends are joined iff their
    # coordinates are equal; what the model joined / grounded (by tolerance) must be written exactly so, and nothing else
    if len(exp) == len(c['wires']) and exp:
        k = 0
        oends = []          # (object index, end, written coordinates, grounded in the model, consolidated model end)
        for gi, g in enumerate(m.geo):
            ne = g.n_emulated_wires
            first, last = c['wires'][k], c['wires'][k + ne - 1]
            k += ne
            for e, w, key in ((0, first, 'p1'), (1, last, 'p2')):
                oends.append((gi, e, np.array(w[key]), bool(g.is_ground[e]), m.endpoint(g.endpoints[e])))
        for gi, e, p, gnd, cons in oends:
            if m.media is not None and gnd != (p[2] == 0.0):
                viol.append(('BASIC-GROUND', '%s: object %d end %d is %sgrounded in the model but written with z=%r (BASIC grounds exactly z = 0)'
                             % (label, gi + 1, e + 1, '' if gnd else 'not ', p[2])))
                break
        for (gi, e, p, gnd, cons), (gj, f_, q, gnd2, cons2) in itertools.combinations(oends, 2):
            joined = (not gnd and not gnd2 and tuple(cons) == tuple(cons2))
            if joined != bool((p == q).all()) and not (gnd and gnd2):
                viol.append(('BASIC-JOIN', '%s: object %d end %d and object %d end %d are %sjoined in the model but written as %s / %s'
                             % (label, gi + 1, e + 1, gj + 1, f_ + 1, '' if joined else 'not ', p, q)))
                break
    # sources
    if len(m.sources) != len(c['sources']):
        viol.append(('SOURCE-COUNT', '%s: %d sources, %d written' % (label, len(m.sources), len(c['sources']))))
    else:
        for s, b in zip(m.sources, c['sources']):
            v = b['mag'] * cmath.exp(1j * math.radians(b['phase_deg']))
            if b['pulse'] != s.idx + 1:
                viol.append(('SOURCE-PULSE', '%s: source on pulse %d written as %d' % (label, s.idx + 1, b['pulse'])))
            if abs(v - s.voltage) > 1e-5 * abs(s.voltage):
                viol.append(('SOURCE-VOLTAGE', '%s: source voltage %s written as magnitude %r, phase %r (read as degrees: %s)' % (label, s.voltage, b['mag'], b['phase_deg'], v)))
    # loads: impedance per pulse at f
    exp = {}
    for ld in m.loads:
        for p in ld.pulses:
            exp[p.idx + 1] = exp.get(p.idx + 1, 0j) + ld.impedance(m.f, p)
    got = {}
    for l in c['loads']:
        if 'z' in l:
            z = l['z']
        else:
            z = mm.Laplace_Load(a=l['a'], b=l['b']).impedance(m.f)
        got[l['pulse']] = got.get(l['pulse'], 0j) + z
    if set(exp) != set(got):
        viol.append(('LOAD-PULSES', '%s: loaded pulses %s written as %s' % (label, sorted(exp), sorted(got))))
    else:
        for p in exp:
            if abs(exp[p] - got[p]) > 1e-5 * abs(exp[p]) + 1e-12:
                viol.append(('LOAD-VALUE-v%s' % version, '%s: load on pulse %d is %s at %g MHz, the written answers give %s (version %s units)' % (label, p, exp[p], m.f, got[p], version)))
                break


def evaluate(c):
    import mininec.mininec as mm
    viol = []
    if c['kind'] == 'stored':
        f = c['file']
        ver = '12' if f.endswith('12') else '9'
        try:
            cs = basicin.parse(open(f).read(), ver)
        except basicin.ParseError as e:
            return dict(viol=[('AUTOMATON', 'stored answer file %s is not accepted by the prompt automaton: %s' % (os.path.basename(f), e))])
        pym = f.rsplit('.', 1)[0] + '.pym'
        ok = False
        if os.path.exists(pym):
            argv = shlex.split(open(pym).read())
            m, diag = cli.build_main(argv)
            if m is not None:
                try:
                    m2 = basicin.to_model(cs)
                    p1 = np.array([p.point for p in m.pulses], float)
                    p2 = np.array([p.point for p in m2.pulses], float)
                    if p1.shape != p2.shape or np.abs(p1 - p2).max() > 1e-5 * max(1.0, np.abs(p1).max()):
                        viol.append(('AUTOMATON-PULSES', '%s: pulse table of the re-read stored file differs from the .pym model' % os.path.basename(f)))
                    ok = True
                except Exception as e:
                    viol.append(('AUTOMATON-BUILD', '%s: %r' % (os.path.basename(f), e)))
        return dict(viol=viol, canon='stored|' + os.path.basename(f), nontriv=ok, outcome='stored', dev=0.0)
    argv = list(c15.BASES[c['base']])
    names = []
    for i in c['devs']:
        name, fn = c15.entry(i)
        argv = fn(argv)
        names.append(name)
    if c['volt'] != '1' and not any(a.startswith('--excitation-voltage') for a in argv):
        argv = argv + ['--excitation-voltage=' + c['volt']]
        names.append('volt=' + c['volt'])
    label = '%s + %s v%s %s' % (c['base'], names, c['version'], c['req'])
    m, diag = model_of(argv)
    if m is None:
        return dict(viol=[], skipped='not-accepted', evals=1)
    kinds = set(type(l).__name__ for l in m.loads)
    imp = kinds & {'Impedance_Load', 'Skin_Effect_Load', 'Insulation_Load'}
    lap = kinds - {'Impedance_Load', 'Skin_Effect_Load', 'Insulation_Load'}
    if imp and lap:
        return dict(viol=[], skipped='not-expressible(impedance and Laplace loads mixed)', evals=1)
    ns = argparse.Namespace(mininec_version=c['version'])
    kw = {}
    if c['req'] in ('dbi', 'vm', 'vm0'):
        kw.update(azi=mm.Angle(0., 90., 3), zen=mm.Angle(5., 30., 3))
    if c['req'] == 'vm':
        kw.update(ff_abs=True, pwr_ff=100., ff_dist=1000.)
    if c['req'] == 'vm0':
        kw.update(ff_abs=True, ff_dist=0.)      # the program always asks for the distance (0 = none)
    if c['req'] == 'near':
        kw.update(near=[1., 2., 3., 0.5, 0.5, 0.5, 2, 1, 2], pwr_nf=10.)
    if c['req'] == 'near0':
        kw.update(near=[1., 2., 3., 0.5, 0.5, 0.5, 2, 1, 2])
    try:
        m.compute()
        text = m.as_basic_input(ns, **kw)
    except Exception as e:
        return dict(viol=[('WRITE-CRASH:%s' % type(e).__name__, '%s: as_basic_input raises %r' % (label, e))])
    try:
        cs = basicin.parse(text, c['version'])
    except basicin.ParseError as e:
        return dict(viol=[('PROMPTS', '%s: generated answers do not follow the prompts: %s' % (label, e))], canon=label)
    compare(m, cs, c['version'], viol, label)
    # requested outputs
    want = {'none': ['C'], 'dbi': ['C', 'P'], 'vm': ['C', 'P'], 'vm0': ['C', 'P'], 'near': ['C', 'N', 'N'], 'near0': ['C', 'N', 'N']}[c['req']]
    got = [r[0] for r in cs['requests']]
    if got != want:
        viol.append(('REQUESTS', '%s: menu requests %s, expected %s' % (label, got, want)))
    else:
        for r in cs['requests']:
            if r[0] == 'P':
                q = r[1]
                if q['zen'] != [5., 30., 3.] or q['azi'] != [0., 90., 3.] or (c['req'] in ('vm', 'vm0')) != (q['kind'] == 'V'):
                    viol.append(('REQUEST-PATTERN', '%s: pattern request %s' % (label, q)))
                if c['req'] == 'vm' and (q.get('power') != 100. or q.get('dist') != 1000.):
                    viol.append(('REQUEST-POWER', '%s: V/m request %s' % (label, q)))
                if c['req'] == 'vm0' and (q.get('power') is not None or q.get('dist') not in (None, 0., 0)):
                    viol.append(('REQUEST-POWER', '%s: V/m request without power level / distance written as %s' % (label, q)))
            if r[0] == 'N':
                q = r[1]
                if q['x'] != [1., 0.5, 2.] or q['y'] != [2., 0.5, 1.] or q['z'] != [3., 0.5, 2.] or q.get('power') != (10. if c['req'] == 'near' else None):
                    viol.append(('REQUEST-NEAR', '%s: near-field request %s' % (label, q)))
    if not viol:
        try:
            m2 = basicin.to_model(cs)
            p1 = np.array([p.point for p in m.pulses], float)
            p2 = np.array([p.point for p in m2.pulses], float)
            if p1.shape != p2.shape or np.abs(p1 - p2).max() > max(1e-9 * max(1.0, np.abs(p1).max()), 1.1e-3 * m.min_seglen):
                viol.append(('REBUILT-PULSES', '%s: pulse table of the rebuilt model differs (%d vs %d pulses)' % (label, len(p1), len(p2))))
            else:
                m2.compute()
                z1 = np.array([s.impedance for s in m.sources])
                z2 = np.array([s.impedance for s in m2.sources])
                tol = 5e-6 if not m.loads else 5e-5
                if c['base'] == 'fuzzy':
                    # the solver keeps the raw coordinates of fuzzily joined ends (its impedance moves by ~500 x offset/m),
                    # the written input carries the consolidated ones: 1e-10 m offsets leave ~1e-6, rotated ones more
                    tol = 5e-5
                # the feed impedance of a tapered wire and of its one-segment-wire emulation agree only inside the modelling
                # rules: a junction whose two segments differ by more than 2.1 (fine end of a taper meeting a coarse wire) is
                # the listed C06 finding (taper-split), not a property of the writer
                ratio = 1.0
                for p_ in m.pulses:
                    if p_.geo[0] is not p_.geo[1]:
                        l0 = np.linalg.norm(np.array(p_.ends[0], float) - np.array(p_.point, float))
                        l1 = np.linalg.norm(np.array(p_.ends[1], float) - np.array(p_.point, float))
                        ratio = max(ratio, l0 / l1, l1 / l0)
                tapered = any(getattr(g, 'segtype', 0) for g in m.geo)
                if tapered and ratio > 2.1:
                    pass
                elif np.max(np.abs(z1 - z2) / np.abs(z1)) > tol:
                    ins = any(type(l).__name__ == 'Insulation_Load' and l.epsilon_r != 1 for l in m.loads)
                    viol.append(('REBUILT-Z' + ('-insulation' if ins else ''), '%s: feed impedance %s, rebuilt from the BASIC input %s' % (label, z1, z2)))
        except ValueError as e:
            viol.append(('REBUILT-REJECTED', '%s: %s' % (label, e)))
    return dict(viol=viol[:6], canon=label, nontriv=bool(c['devs'] or c['volt'] != '1' or m.loads), trans=2, traces=1, evals=2, dev=0.0, outcome='gen')
