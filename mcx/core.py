"""Runner core: deterministic parallel enumeration, violation bookkeeping,
known-finding matching, replay files, evidence files.

A property module (mcx.props.cXX) provides

  PID                       property id, e.g. 'C12'
  RULE                      text: how cases are enumerated, what is non-trivial
  ASSUMPTIONS               list of str
  cases(tier, seed)         generator of JSON-serialisable case dicts
                            (complete enumeration of the bounded space)
  evaluate(case)            -> result dict (see Result below); runs the real
                            code and the reference model on this one case
  bounds(tier, seed)        -> dict describing the bounds (for evidence)

Result dict keys (all optional except those marked *):
  viol      list of (signature:str, message:str)   * ([] if property held)
  canon     hashable canonical state (str) – distinct ones are counted
  nontriv   bool – case is non-trivial by RULE
  trans     int  – events applied in this case (descriptions, ops, deviations)
  traces    int  – reference-model traces compared against the implementation
  outcome   str  – coarse outcome class (distinct ones are counted)
  dev       float – largest deviation seen (oracle units), for evidence
  skipped   str or None – reason the case was outside the property's domain
  note      anything JSON-serialisable kept for the 'worst' sample
"""
import os, sys, json, time, hashlib, signal, traceback, subprocess
import multiprocessing as mp

VERIF = os.path.dirname(os.path.dirname(os.path.abspath(__file__)))
CASE_TIMEOUT = int(os.environ.get('MCX_CASE_TIMEOUT', '60'))
NPROC = int(os.environ.get('MCX_NPROC', str(min(16, os.cpu_count() or 1))))


def digest(obj):
    s = json.dumps(obj, sort_keys=True, separators=(',', ':'), default=_jd)
    return hashlib.sha1(s.encode()).hexdigest()[:12]


def _jd(o):
    import numpy as np
    if isinstance(o, (np.integer,)):
        return int(o)
    if isinstance(o, (np.floating,)):
        return float(o)
    if isinstance(o, np.ndarray):
        return o.tolist()
    if isinstance(o, complex):
        return [o.real, o.imag]
    if isinstance(o, (set, frozenset)):
        return sorted(o)
    return str(o)


class CaseTimeout(Exception):
    pass


def _alarm(signum, frame):
    raise CaseTimeout()


_EVAL = None


def _init_worker(modname):
    global _EVAL
    import importlib
    import warnings
    warnings.simplefilter('ignore')
    mod = importlib.import_module(modname)
    _EVAL = mod.evaluate
    global CASE_TIMEOUT
    CASE_TIMEOUT = int(os.environ.get('MCX_CASE_TIMEOUT', getattr(mod, 'CASE_TIMEOUT', CASE_TIMEOUT)))
    signal.signal(signal.SIGALRM, _alarm)
    signal.signal(signal.SIGPROF, _alarm)


def _run_one(case):
    """Evaluate one case in a worker; never raises.
    The per-case limit counts CPU seconds of the worker (ITIMER_PROF), so that a loaded machine cannot turn a slow
    case into an alarm; a wall-clock limit of 30x that catches a case that blocks without using CPU."""
    t0 = time.time()
    signal.setitimer(signal.ITIMER_PROF, CASE_TIMEOUT)
    signal.alarm(30 * CASE_TIMEOUT)
    try:
        try:
            res = _EVAL(case)
        finally:
            signal.setitimer(signal.ITIMER_PROF, 0)
            signal.alarm(0)
    except CaseTimeout:
        res = dict(viol=[('TIMEOUT', 'case exceeded %d CPU seconds (or %d s wall clock)' % (CASE_TIMEOUT, 30 * CASE_TIMEOUT))])
    except BaseException as e:  # harness or code under test blew up
        tb = traceback.extract_tb(e.__traceback__)
        fr = [f for f in tb if '/mininec/' in f.filename]
        where = fr[-1].name if fr else (tb[-1].name if tb else '?')
        res = dict(viol=[('CRASH:%s@%s' % (type(e).__name__, where),
                          ''.join(traceback.format_exception_only(type(e), e)).strip()[:300])])
    res.setdefault('viol', [])
    res['t'] = time.time() - t0
    return res


def load_known(pid):
    """known_findings.txt: lines
         finding: property=<id> key=<case:<digest>|sig:<signature>> :: what fails
         fixed: property=<id> <commit> what failed          (suppresses nothing)
    """
    out = []
    p = os.path.join(VERIF, 'known_findings.txt')
    if not os.path.exists(p):
        return out
    for line in open(p):
        line = line.strip()
        if not line.startswith('finding:'):
            continue
        body = line[len('finding:'):].strip()
        head, _, what = body.partition('::')
        f = dict(x.split('=', 1) for x in head.split() if '=' in x)
        if f.get('property') == pid and 'key' in f:
            out.append((f['key'], what.strip()))
    return out


def run_property(mod, tier, seed, max_seconds=None, replay=None):
    pid = mod.PID
    t0 = time.time()
    known = load_known(pid)
    modname = mod.__name__
    if replay:
        cases = [json.load(open(replay))['case']]
    else:
        cases = mod.cases(tier, seed)

    agg = dict(n=0, states=set(), nontriv=set(), trans=0, traces=0,
               outcomes={}, dev=0.0, skipped={}, worst=None, first=None,
               last=None, timeouts=0)
    viols = {}          # signature -> (case, message, count)
    capped = False
    cap = max_seconds or float(os.environ.get('MCX_MAX_SECONDS', '0')) or None

    def consume(case, res):
        agg['n'] += int(res.get('evals', 1))
        c = res.get('canon')
        if c is None:
            c = digest(case)
        if res.get('skipped'):
            agg['skipped'][res['skipped']] = agg['skipped'].get(res['skipped'], 0) + 1
        else:
            cl = c if isinstance(c, list) else [c]
            nt = res.get('nontriv', True)
            ntl = nt if isinstance(nt, list) else [nt] * len(cl)
            for ci, ni in zip(cl, ntl):
                agg['states'].add(ci)
                if ni:
                    agg['nontriv'].add(ci)
            agg['trans'] += int(res.get('trans', 1))
            agg['traces'] += int(res.get('traces', 1))
        for k, v in (res.get('skips') or {}).items():
            agg['skipped'][k] = agg['skipped'].get(k, 0) + v
        o = res.get('outcome')
        if o is not None:
            agg['outcomes'][o] = agg['outcomes'].get(o, 0) + 1
        d = res.get('dev')
        sample = dict(case=case, dev=d, outcome=o, note=res.get('note'))
        if agg['first'] is None and not res.get('skipped'):
            agg['first'] = sample
        if not res.get('skipped'):
            agg['last'] = sample
        if d is not None and not res.get('skipped'):
            if res['viol']:
                agg['vdev'] = max(agg.get('vdev', 0.0), float(d))     # violating (new or listed) cases are reported separately
            elif d >= agg['dev']:
                agg['dev'] = float(d)
                agg['worst'] = sample
        dg = None
        for sig, msg in res['viol']:
            # a violation is a listed finding if its signature or its case is listed; decided per violating case,
            # so that an unlisted case is never hidden behind a listed one with the same signature
            if dg is None:
                dg = digest(case)
            hit = None
            for key, what in known:
                if key == 'case:' + dg or key == 'sig:' + sig:
                    hit = what
                    break
            k = (sig, hit)
            if k not in viols:
                viols[k] = [case, msg, 0]
            viols[k][2] += 1

    if replay or NPROC == 1:
        _init_worker(modname)
        for case in cases:
            consume(case, _run_one(case))
            if cap and time.time() - t0 > cap:
                capped = True
                break
    else:
        ctx = mp.get_context('fork')
        chunk = getattr(mod, 'CHUNK', 8)
        with ctx.Pool(NPROC, initializer=_init_worker, initargs=(modname,)) as pool:
            buf = []

            def gen():
                for c in cases:
                    buf.append(c)
                    yield c
            i = 0
            for res in pool.imap(_run_one, gen(), chunksize=chunk):
                consume(buf[i], res)
                buf[i] = None
                i += 1
                if cap and time.time() - t0 > cap:
                    capped = True
                    pool.terminate()
                    break

    # --- classify violations: listed finding or new
    new, listed = [], []
    for (sig, hit), (case, msg, cnt) in viols.items():
        dg = digest(case)
        (listed if hit else new).append((sig, case, msg, cnt, dg, hit))

    rdir = os.environ.get('MCX_EVIDENCE_DIR') or os.path.join(VERIF, 'replays')
    os.makedirs(rdir, exist_ok=True)
    out_lines = []
    flaky = 0
    byhit = {}
    for sig, case, msg, cnt, dg, hit in listed:
        byhit.setdefault(hit, []).append('%s x%d' % (sig, cnt))
        # keep one replayable artefact per listed finding (written once, never overwritten)
        kpath = os.path.join(rdir, 'known-%s-%s.json' % (pid, hashlib.sha1(sig.encode()).hexdigest()[:8]))
        if not replay and not os.path.exists(kpath) and not os.environ.get('MCX_EVIDENCE_DIR'):
            with open(kpath, 'w') as f:
                json.dump(dict(property=pid, signature=sig, message=msg, case=case, known_finding=hit),
                          f, indent=1, sort_keys=True, default=_jd)
    for hit, sigs in byhit.items():
        out_lines.append('KNOWN-FINDING: property=%s %s [%s]' % (pid, hit, ', '.join(sigs)))
    nviol = 0
    for sig, case, msg, cnt, dg, hit in new:
        path = os.path.join(rdir, '%s-%s.json' % (pid, dg))
        with open(path, 'w') as f:
            json.dump(dict(property=pid, signature=sig, message=msg, case=case),
                      f, indent=1, sort_keys=True, default=_jd)
        if not replay and os.environ.get('MCX_NO_RECHECK') != '1':
            # determinism: the same case must fail again from a fresh process
            r = subprocess.run([sys.executable, '-m', 'mcx.run', pid, '--replay', path],
                               cwd=VERIF, capture_output=True, text=True,
                               env=dict(os.environ, MCX_NO_RECHECK='1'))
            if 'VIOLATION' not in r.stdout:
                out_lines.append('FLAKY property=%s replay=%s (%s) did not fail on replay' % (pid, path, sig))
                flaky += 1
                continue
        nviol += 1
        out_lines.append('VIOLATION property=%s replay=%s' % (pid, path))
        out_lines.append('  signature: %s  (x%d)  %s' % (sig, cnt, msg[:400]))

    wall = time.time() - t0
    if not replay:
        bounds = mod.bounds(tier, seed) if hasattr(mod, 'bounds') else {}
        samples = [s for s in (agg['first'], agg['last'], agg['worst']) if s]
        ev = dict(
            property_id=pid, tier=tier, seed=int(seed), level='model_checking',
            coverage=dict(
                states=len(agg['states']), transitions=agg['trans'],
                traces_validated_against_impl=agg['traces'],
                evaluations=agg['n'], distinct_nontrivial=len(agg['nontriv']),
                rule=mod.RULE, samples=samples,
                distinct_outcomes=len(agg['outcomes']),
                outcomes=dict(sorted(agg['outcomes'].items(), key=lambda x: -x[1])[:40]),
                skipped_out_of_domain=agg['skipped'],
                max_deviation_seen=agg['dev'], max_deviation_in_violating_cases=agg.get('vdev'),
                tolerance=getattr(mod, 'TOLERANCE', None),
                exhaustive=(not capped), capped_after_s=(cap if capped else None),
                bounds=bounds, workers=NPROC,
                known_findings_reproduced=[dict(signature=s, what=h, count=c) for s, _, _, c, _, h in listed],
                flaky=flaky,
            ),
            assumptions=list(getattr(mod, 'ASSUMPTIONS', [])),
            wall_s=round(wall, 2), violations=nviol,
        )
        edir = os.environ.get('MCX_EVIDENCE_DIR') or os.path.join(VERIF, 'evidence')
        os.makedirs(edir, exist_ok=True)
        tmp = os.path.join(edir, pid + '.json.tmp')
        with open(tmp, 'w') as f:
            json.dump(ev, f, indent=1, sort_keys=True, default=_jd)
        os.replace(tmp, os.path.join(edir, pid + '.json'))
    print('%s tier=%s seed=%s: evaluations=%d states=%d nontrivial=%d transitions=%d outcomes=%d '
          'skipped=%d maxdev=%.3g exhaustive=%s wall=%.1fs' % (
              pid, tier, seed, agg['n'], len(agg['states']), len(agg['nontriv']), agg['trans'],
              len(agg['outcomes']), sum(agg['skipped'].values()), agg['dev'], not capped, wall))
    for l in out_lines:
        print(l)
    if replay:
        for (sig, hit), (case, msg, cnt) in viols.items():
            print('  replay result: %s%s: %s' % (sig, ' [listed known finding]' if hit else '', msg))
        if not viols:
            print('  replay result: property holds on this case')
    return 1 if nviol else 0
