"""Reference segmentations from the documentation (README: tapering, Arc, Helix, transformations)."""
import math
import numpy as np


def equal_ends(p1, p2, n):
    p1, p2 = np.array(p1, float), np.array(p2, float)
    return np.array([p1 + (p2 - p1) * i / n for i in range(n + 1)])


def arc_ends(n, radius, ang1, ang2):
    """arc centre at the origin, axis Y, angles from the X axis towards Z (left hand about Y), inscribed polygon"""
    a1, a2 = math.radians(ang1), math.radians(ang2)
    return np.array([[radius * math.cos(a1 + (a2 - a1) * i / n), 0.0, radius * math.sin(a1 + (a2 - a1) * i / n)] for i in range(n + 1)])


def helix_ends(n, length, turnlen, rx1, ry1, rx2=None, ry2=None):
    """helix always starts at z=0 and grows to +|length|; right-handed when both signs agree; starts at
    (rx1, 0) for length > 0 and at (0, ry1) for length < 0; radii interpolate linearly from start to end;
    uniform angular steps"""
    rx2 = rx1 if rx2 is None else rx2
    ry2 = ry1 if ry2 is None else ry2
    s = 1.0 if length * turnlen > 0 else -1.0
    L, T = abs(length), abs(turnlen)
    out = []
    for i in range(n + 1):
        f = i / n
        z = f * L
        xm, ym = rx1 + f * (rx2 - rx1), ry1 + f * (ry2 - ry1)
        phi = s * 2 * math.pi * z / T
        if length > 0:
            out.append([xm * math.cos(phi), ym * math.sin(phi), z])
        else:
            out.append([-xm * math.sin(phi), ym * math.cos(phi), z])
    return np.array(out)


def taper_invariants(lengths, L, r, ttype, tmin, tmax, slack):
    """documented contract of a tapered segmentation (lengths along the wire from end 1):
    growth factor <= 2.1 per step away from the tapered end(s), every length >= max(2.5 r, min) and <= max,
    monotone from the tapered end. Returns list of messages."""
    msgs = []
    lo = max(2.5 * r, tmin or 0.0)
    l = np.array(lengths)
    if (l < lo - slack).any():
        msgs.append(('TAPER-MIN', 'segment %.6g shorter than max(2.5 r, min) = %.6g' % (l.min(), lo)))
    if tmax is not None and (l > tmax + slack).any():
        msgs.append(('TAPER-MAX', 'segment %.6g longer than max = %.6g' % (l.max(), tmax)))
    seqs = []
    if ttype == 1:
        seqs = [l]
    elif ttype == 2:
        seqs = [l[::-1]]
    else:
        h = (len(l) + 1) // 2
        seqs = [l[:h], l[::-1][:h]]
        if np.abs(l - l[::-1]).max() > slack:
            msgs.append(('TAPER-SYM', 'two-sided taper not symmetric: %s' % np.abs(l - l[::-1]).max()))
    for q in seqs:
        for a, b in zip(q[:-1], q[1:]):
            if b < a - slack:
                msgs.append(('TAPER-MONO', 'lengths not monotone from the tapered end: %.6g then %.6g' % (a, b)))
                break
            if b > 2.1 * a + slack:
                msgs.append(('TAPER-GROWTH', 'growth factor %.4g > 2.1' % (b / a)))
                break
    return msgs
