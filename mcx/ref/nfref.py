"""Independent near field of the solved pulse currents and their charges:
E = -j w mu0/(4 pi) * sum I_n int_halves G d ds - grad Phi,  Phi from the pulse charges +-I_n/(j w L) on the two
full segments of each pulse,  H = 1/(4 pi) * sum I_n int grad G x d ds,  G = exp(-jkR)/R (reduced kernel, radius
inside R for thick wires), analytic gradients, composite 64-point Gauss, physical constants; image pulses with
mirrored geometry and opposite sign over ideal ground, grounded pulses with their built-in image half."""
import numpy as np
from numpy.polynomial.legendre import leggauss

MU0 = 1.25663706127e-6
EPS0 = 8.8541878188e-12
C0 = 1 / np.sqrt(MU0 * EPS0)
X64, W64 = leggauss(64)
X64 = (X64 + 1) / 2
W64 = W64 / 2
MIR = np.array([1., 1., -1.])


def seg_int(obs, a, b, rad, k, thick, nsub=4):
    """(int G dl, int gradG dl) over a->b, gradient with respect to the observation point"""
    L = np.linalg.norm(b - a)
    g = 0j
    gg = np.zeros(3, complex)
    for s in range(nsub):
        t = (s + X64) / nsub
        w = W64 / nsub
        p = a[None, :] + (b - a)[None, :] * t[:, None]
        d = obs[None, :] - p
        R = np.sqrt(np.sum(d * d, axis=1) + (rad * rad if thick else 0))
        G = np.exp(-1j * k * R) / R
        g += np.sum(w * G) * L
        dG = -(1j * k * R + 1) * G / R / R
        gg += np.sum((w * dG)[:, None] * d, axis=0) * L
    return g, gg


def fields(m, obs, power=None):
    """E, H at obs from m.current and the pulse geometry"""
    lam = m.wavelen
    k = 2 * np.pi / lam
    omega = k * C0
    srm = 1e-4 * lam
    A = np.zeros(3, complex)
    gradPhi = np.zeros(3, complex)
    curlA = np.zeros(3, complex)
    obs = np.array(obs, float)
    for p in m.pulses:
        I = m.current[p.idx]
        pt = np.array(p.point, float)
        e0 = np.array(p.ends[0], float)
        e1 = np.array(p.ends[1], float)
        r0, r1 = p.geo[0].r, p.geo[1].r
        copies = [(pt, e0, e1, 1.0)]
        if m.media is not None and not p.ground.any():
            copies.append((pt * MIR, e0 * MIR, e1 * MIR, -1.0))
        for (c, a, b, sg) in copies:
            L0 = np.linalg.norm(c - a)
            L1 = np.linalg.norm(b - c)
            d0 = (c - a) / L0
            d1 = (b - c) / L1
            h0 = c + (a - c) * .5
            h1 = c + (b - c) * .5
            g, gg = seg_int(obs, h0, c, r0, k, r0 > srm)
            A += sg * I * g * d0
            curlA += sg * I * np.cross(gg, d0)
            g, gg = seg_int(obs, c, h1, r1, k, r1 > srm)
            A += sg * I * g * d1
            curlA += sg * I * np.cross(gg, d1)
            g, gg = seg_int(obs, c, b, r1, k, r1 > srm)
            gradPhi += sg * I / (1j * omega) * gg / L1
            g, gg = seg_int(obs, a, c, r0, k, r0 > srm)
            gradPhi += -sg * I / (1j * omega) * gg / L0
    E = -1j * omega * MU0 / (4 * np.pi) * A - gradPhi / (4 * np.pi * EPS0)
    H = curlA / (4 * np.pi)
    if power is not None:
        from mcx import geom
        f = np.sqrt(power / geom.input_power(m))
        E, H = E * f, H * f
    return E, H
