"""Tokenizer / parser of the MININEC-style report into typed blocks."""
import re

NUM = r'[-+]?(?:\d+\.?\d*|\.\d+)(?:[eE][-+]?\d+)?'


def fnum(s):
    return float(s)


def parse_currents(text):
    """CURRENT DATA block -> list of dict(name, tag, end1, pulses, end2)
    end1/end2: None (grounded: no line), ('E', 0j) or ('J', complex)"""
    i = text.index('CURRENT DATA')
    rest = text[i:]
    stop = re.search(r'\*{20}\s+(FAR FIELD|NEAR FIELDS)', rest)
    if stop:
        rest = rest[:stop.start()]
    lines = rest.split('\n')[1:]
    blocks = []
    cur = None
    for l in lines:
        m = re.match(r'^(WIRE|ARC|HELIX) NO\.\s*(\d+) :', l)
        if m:
            cur = dict(name=m.group(1), tag=int(m.group(2)), rows=[])
            blocks.append(cur)
            continue
        if cur is None:
            continue
        t = l.split()
        if not t or t[0] in ('PULSE', 'NO.'):
            continue
        if t[0] in ('E', 'J'):
            cur['rows'].append((t[0], complex(float(t[1]), float(t[2])), float(t[3]), float(t[4])))
        elif re.match(r'^\d+$', t[0]) and len(t) == 5:
            cur['rows'].append((int(t[0]), complex(float(t[1]), float(t[2])), float(t[3]), float(t[4])))
    return blocks


def parse_geometry(text):
    """geometry table -> list of dict(name, tag, rows=[(x,y,z,radius,c1,c2,no)])"""
    i = text.index('**** ANTENNA GEOMETRY ****')
    rest = text[i:]
    j = rest.find('NO. OF SOURCES')
    if j >= 0:
        rest = rest[:j]
    blocks = []
    cur = None
    for l in rest.split('\n'):
        m = re.match(r'^(WIRE|ARC|HELIX) NO\.\s*(\d+)\s+COORDINATES', l)
        if m:
            cur = dict(name=m.group(1), tag=int(m.group(2)), rows=[])
            blocks.append(cur)
            continue
        if cur is None:
            continue
        t = l.split()
        if len(t) == 7 and t[0] != '-' and t[0] != 'X':
            cur['rows'].append((float(t[0]), float(t[1]), float(t[2]), float(t[3]), int(t[4]), int(t[5]), int(t[6])))
    return blocks


def parse_source_data(text):
    """SOURCE DATA block -> list of dict(pulse, voltage, current, impedance, power)"""
    i = text.index('SOURCE DATA')
    rest = text[i:]
    j = rest.find('CURRENT DATA')
    if j >= 0:
        rest = rest[:j]
    out = []
    cur = None
    for l in rest.split('\n'):
        m = re.match(r'^PULSE\s*(\d+)\s+VOLTAGE = \(\s*(%s)\s*,\s*(%s)\s*J\)' % (NUM, NUM), l)
        if m:
            cur = dict(pulse=int(m.group(1)), voltage=complex(float(m.group(2)), float(m.group(3))))
            out.append(cur)
            continue
        for key in ('CURRENT', 'IMPEDANCE'):
            m = re.match(r'^\s+%s = \(\s*(%s)\s*,\s*(%s)\s*J\)' % (key, NUM, NUM), l)
            if m and cur is not None:
                cur[key.lower()] = complex(float(m.group(1)), float(m.group(2)))
        m = re.match(r'^\s+POWER =\s*(%s)\s+WATTS' % NUM, l)
        if m and cur is not None:
            cur['power'] = float(m.group(1))
    return out


def parse_sources(text):
    """NO. OF SOURCES listing -> list of (pulse, magnitude, phase_deg) as printed"""
    out = []
    for m in re.finditer(r'PULSE NO\., VOLTAGE MAGNITUDE, PHASE \(DEGREES\):\s*(\S+)\s*,\s*(\S+)\s*,\s*(\S+)', text):
        out.append((m.group(1), m.group(2), m.group(3)))
    return out


def parse_loads(text):
    """load listing -> (declared count, [(pulse, R, X)] for impedance-type lines, [(pulse, order)] for laplace)"""
    m = re.search(r'NUMBER OF LOADS\s*(\d+)', text)
    n = int(m.group(1)) if m else None
    imp = [(int(a), float(b), float(c)) for a, b, c in
           re.findall(r'PULSE NO\.,RESISTANCE,REACTANCE:\s*(\d+)\s*,\s*(%s)\s*,\s*(%s)' % (NUM, NUM), text)]
    lap = [(int(a), int(b)) for a, b in re.findall(r'PULSE NO\., ORDER OF S-PARAMETER FUNCTION:\s*(\d+)\s*,\s*(\d+)', text)]
    return n, imp, lap


def parse_far_db(text):
    """dBi pattern rows -> list of (zenith, azimuth, v, h, t)"""
    out = []
    k = text.find('PATTERN (DB)')
    if k < 0:
        return out
    rest = text[k:]
    for l in rest.split('\n')[1:]:
        t = l.split()
        if len(t) != 5:
            if out:
                break
            continue
        try:
            out.append(tuple(float(x) for x in t))
        except ValueError:
            if out:
                break
    return out


def parse_far_abs(text):
    """V/m pattern rows -> list of (zenith, azimuth, et_mag, et_phase, ep_mag, ep_phase)"""
    out = []
    k = text.find('MAG(V/M)')
    if k < 0:
        return out
    rest = text[k:]
    for l in rest.split('\n')[1:]:
        t = l.split()
        if len(t) != 6:
            if out:
                break
            continue
        try:
            out.append(tuple(float(x) for x in t))
        except ValueError:
            if out:
                break
    return out


def parse_near(text):
    """near-field blocks -> list of dict(kind 'E'|'H', point, comp={'X':(re,im,mag,ph)..}, peak)"""
    out = []
    cur = None
    for l in text.split('\n'):
        m = re.match(r'^\*+NEAR (ELECTRIC|MAGNETIC) FIELDS\*+', l)
        if m:
            cur = dict(kind='E' if m.group(1) == 'ELECTRIC' else 'H', comp={})
            out.append(cur)
            continue
        if cur is None:
            continue
        m = re.match(r'^\s+FIELD POINT: X =\s*(\S+)\s+Y =\s*(\S+)\s+Z =\s*(\S+)', l)
        if m:
            cur['point'] = tuple(float(m.group(i)) for i in (1, 2, 3))
            continue
        t = l.split()
        if len(t) == 5 and t[0] in ('X', 'Y', 'Z'):
            cur['comp'][t[0]] = tuple(float(x) for x in t[1:])
        m = re.match(r'^\s+MAXIMUM OR PEAK FIELD =\s*(\S+)', l)
        if m:
            cur['peak'] = float(m.group(1))
            cur = None
    return out


def all_numeric_tokens(text):
    return re.findall(r'(?<![A-Za-z0-9_.])' + NUM + r'(?![A-Za-z0-9_])', text)
