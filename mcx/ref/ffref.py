"""Radiation integral of the solved pulse currents (plus image currents over ideal ground).
  moments=True : each half-segment's current moment placed at its pulse point (as MININEC specifies)
  moments=False: exact integral over the straight half-segments (closed form L*sinc*phase at the half-segment centre)
Field in V/m at unit distance for the solved (unnormalised) currents; MININEC's documented eta/4pi = 29.979221."""
import numpy as np

G0 = 29.979221
MIR = np.array([1., 1., -1.])


def unit_vectors(th, ph):
    rh = np.array([np.sin(th) * np.cos(ph), np.sin(th) * np.sin(ph), np.cos(th)])
    tH = np.array([np.cos(th) * np.cos(ph), np.cos(th) * np.sin(ph), -np.sin(th)])
    pH = np.array([-np.sin(ph), np.cos(ph), 0.])
    return rh, tH, pH


def _contrib(I, pt, half_vec, rh, k, moments):
    """half_vec: vector from the pulse point along the current direction covering the half segment
    (current flows along +half_vec); returns I * integral of exp(jk rh.r') dl over it (vector)"""
    if moments:
        return I * np.exp(1j * k * (rh @ pt)) * half_vec
    L = np.linalg.norm(half_vec)
    d = half_vec / L
    c = pt + half_vec / 2
    x = k * (rh @ d) * L / 2
    return I * L * np.sinc(x / np.pi) * np.exp(1j * k * (rh @ c)) * d


def pulse_halves(p):
    """list of (start point of the half on the pulse point side, vector of the half in current direction)
    for the two halves; the first half carries current towards the point: it is described from its far
    half-point to the pulse point"""
    pt = np.array(p.point, float)
    e0, e1 = np.array(p.ends[0], float), np.array(p.ends[1], float)
    h0 = (pt - e0) / 2      # current direction e0 -> pt, half adjacent to pt
    h1 = (e1 - pt) / 2
    return pt, h0, h1


def field(m, th, ph, moments=True, current=None):
    k = 2 * np.pi / m.wavelen
    cur = m.current if current is None else current
    rh, tH, pH = unit_vectors(th, ph)
    ground = m.media is not None
    N = np.zeros(3, complex)
    for p in m.pulses:
        I = cur[p.idx]
        pt, h0, h1 = pulse_halves(p)
        halves = []
        # half 0 occupies [pt - h0, pt], half 1 occupies [pt, pt + h1]; describe each by its start and vector
        for gflag, start, vec in ((p.ground[0], pt - h0, h0), (p.ground[1], pt, h1)):
            if ground and gflag:
                continue          # this half of a grounded pulse is the image: generated from the real half below
            halves.append((start, vec))
        for start, vec in halves:
            if moments:
                N += _contrib(I, pt, vec, rh, k, True)
            else:
                N += _contrib(I, start, vec, rh, k, False)
            if ground:
                # image current: mirrored position, minus the mirrored direction
                if moments:
                    N += _contrib(I, pt * MIR, -(vec * MIR), rh, k, True)
                else:
                    N += _image_exact(I, start, vec, rh, k)
    f = -1j * k * G0
    return f * (N @ tH), f * (N @ pH)


def _image_exact(I, start, vec, rh, k):
    # mirrored half segment runs from mirror(start) along mirror(vec); image current flows along -mirror(vec)
    L = np.linalg.norm(vec)
    ms, mv = start * MIR, vec * MIR
    d = mv / L
    c = ms + mv / 2
    x = k * (rh @ d) * L / 2
    return -I * L * np.sinc(x / np.pi) * np.exp(1j * k * (rh @ c)) * d
