"""Automaton of the BASIC MININEC prompts: READS an answer file (one answer per line) into a case.
Prompt order as documented by the original program (the comments of the writer quote each prompt); the automaton
is validated against the stored .mini / .mini12 files, which did run on the BASIC program."""


class ParseError(Exception):
    pass


class Reader:
    def __init__(self, text):
        self.lines = text.split('\n')
        while self.lines and self.lines[-1].strip() == '':
            self.lines.pop()
        self.i = 0
        self.trace = []

    def next(self, prompt):
        if self.i >= len(self.lines):
            raise ParseError('answers exhausted at prompt %r' % prompt)
        l = self.lines[self.i].strip()
        self.i += 1
        self.trace.append((prompt, l))
        return l

    def floats(self, prompt, n):
        l = self.next(prompt)
        p = [x.strip() for x in l.split(',')]
        if len(p) != n:
            raise ParseError('prompt %r expects %d values, got %r' % (prompt, n, l))
        try:
            return [float(x) for x in p]
        except ValueError:
            raise ParseError('prompt %r: not numeric: %r' % (prompt, l))

    def integer(self, prompt):
        l = self.next(prompt)
        try:
            return int(l)
        except ValueError:
            raise ParseError('prompt %r expects an integer, got %r' % (prompt, l))

    def yn(self, prompt):
        l = self.next(prompt)
        if l not in ('Y', 'N'):
            raise ParseError('prompt %r expects Y/N, got %r' % (prompt, l))
        return l == 'Y'

    def choice(self, prompt, allowed):
        l = self.next(prompt)
        if l not in allowed:
            raise ParseError('prompt %r expects one of %s, got %r' % (prompt, allowed, l))
        return l


def parse(text, version='9'):
    r = Reader(text)
    c = {}
    r.choice('OUTPUT TO CONSOLE, PRINTER, OR DISK (C/P/D)', ('D',))
    c['outfile'] = r.next('FILENAME (NAME.OUT)')
    c['f'] = r.floats('FREQUENCY (MHZ)', 1)[0]
    env = r.choice('ENVIRONMENT (+1 FOR FREE SPACE, -1 FOR GROUND PLANE)', ('+1', '-1', '1'))
    c['ground'] = env == '-1'
    c['media'] = []
    if c['ground']:
        nm = r.integer('NUMBER OF MEDIA (0 FOR PERFECTLY CONDUCTING GROUND)')
        c['nmedia'] = nm
        boundary = None
        for i in range(nm):
            med = {}
            if i == 0 and nm > 1:
                boundary = r.choice('TYPE OF BOUNDARY (1-LINEAR, 2-CIRCULAR)', ('1', '2'))
            med['eps'], med['sigma'] = r.floats('RELATIVE DIELECTRIC CONSTANT, CONDUCTIVITY', 2)
            if i > 0:
                med['height'] = r.floats('HEIGHT OF MEDIA', 1)[0]
            elif nm > 1 and boundary == '2':
                med['nradials'] = r.integer('NUMBER OF RADIAL WIRES IN GROUND SCREEN')
                if med['nradials']:
                    med['radius'] = r.floats('RADIUS OF RADIAL WIRES', 1)[0]
            if i < nm - 1:
                med['coord'] = r.floats('X OR R COORDINATE OF NEXT MEDIA INTERFACE', 1)[0]
            c['media'].append(med)
        c['boundary'] = {None: None, '1': 'linear', '2': 'circular'}[boundary]
    nw = r.integer('NO. OF WIRES')
    c['wires'] = []
    for k in range(nw):
        w = {}
        w['n'] = r.integer('NO. OF SEGMENTS')
        w['p1'] = r.floats('END ONE COORDINATES (X,Y,Z)', 3)
        w['p2'] = r.floats('END TWO COORDINATES (X,Y,Z)', 3)
        w['r'] = r.floats('RADIUS', 1)[0]
        if r.yn('CHANGE WIRE NO. %d (Y/N)' % (k + 1)):
            raise ParseError('wire change requested')
        c['wires'].append(w)
    if r.yn('CHANGE GEOMETRY (Y/N)'):
        raise ParseError('geometry change requested')
    ns = r.integer('NO. OF SOURCES')
    c['sources'] = []
    for k in range(ns):
        p, mag, ph = r.floats('PULSE NO., VOLTAGE MAGNITUDE, PHASE (DEGREES)', 3)
        if p != int(p):
            raise ParseError('pulse number not integral')
        c['sources'].append(dict(pulse=int(p), mag=mag, phase_deg=ph))
    nl = r.integer('NUMBER OF LOADS')
    c['loads'] = []
    c['laplace'] = False
    if nl:
        c['laplace'] = r.yn('S-PARAMETER (S=jw) IMPEDANCE LOAD (Y/N)')
        for k in range(nl):
            if c['laplace']:
                p, order = r.floats('PULSE NO., ORDER OF S-PARAMETER FUNCTION', 2)
                num, den = [], []
                for d in range(int(order) + 1):
                    a, b = r.floats('NUMERATOR, DENOMINATOR COEFFICIENTS OF S^%d' % d, 2)
                    # version 9: L, C in uH, uF -> coefficients of s^d carry 1e6^d
                    fac = 10 ** (6 * d) if version == '9' else 1
                    num.append(a / fac)
                    den.append(b / fac)
                c['loads'].append(dict(pulse=int(p), b=num, a=den))
            else:
                p, re, im = r.floats('PULSE NO.,RESISTANCE,REACTANCE', 3)
                c['loads'].append(dict(pulse=int(p), z=complex(re, im)))
    # menu
    c['requests'] = []
    while True:
        cmd = r.choice('MENU (C/P/N/Q)', ('C', 'P', 'N', 'Q'))
        if cmd == 'Q':
            break
        if cmd == 'C':
            if r.yn('SAVE CURRENTS TO A FILE (Y/N)'):
                raise ParseError('save currents')
            c['requests'].append(('C',))
        elif cmd == 'P':
            kind = r.choice('CALCULATE PATTERN IN DBI OR VOLTS/METER (D/V)', ('D', 'V'))
            req = dict(kind=kind)
            if kind == 'V':
                if r.yn('CHANGE POWER LEVEL (Y/N)'):
                    req['power'] = r.floats('NEW POWER LEVEL (WATTS)', 1)[0]
                    if r.yn('CHANGE POWER LEVEL (Y/N)'):
                        raise ParseError('second power change')
                req['dist'] = r.floats('RADIAL DISTANCE (METERS)', 1)[0]
            req['zen'] = r.floats('ZENITH ANGLE : INITIAL,INCREMENT,NUMBER', 3)
            req['azi'] = r.floats('AZIMUTH ANGLE: INITIAL,INCREMENT,NUMBER', 3)
            if r.yn('FILE PATTERN (Y/N)'):
                req['file'] = r.next('FILENAME')
            c['requests'].append(('P', req))
        elif cmd == 'N':
            req = dict(kind=r.choice('ELECTRIC OR MAGNETIC NEAR FIELDS (E/H)', ('E', 'H')))
            req['x'] = r.floats('X-COORDINATE (M): INITIAL,INCREMENT,NUMBER', 3)
            req['y'] = r.floats('Y-COORDINATE (M): INITIAL,INCREMENT,NUMBER', 3)
            req['z'] = r.floats('Z-COORDINATE (M): INITIAL,INCREMENT,NUMBER', 3)
            if r.yn('CHANGE POWER LEVEL (Y/N)'):
                req['power'] = r.floats('NEW POWER LEVEL (WATTS)', 1)[0]
                if r.yn('CHANGE POWER LEVEL (Y/N)'):
                    raise ParseError('second power change')
            if r.yn('SAVE TO A FILE (Y/N)'):
                raise ParseError('save near field')
            c['requests'].append(('N', req))
    if r.i != len(r.lines):
        raise ParseError('%d answers left over after Q: %r' % (len(r.lines) - r.i, r.lines[r.i:r.i + 3]))
    return c


def to_model(c):
    """rebuild the read answers through the API"""
    import mininec.mininec as mm
    import cmath, math
    media = None
    if c['ground']:
        if c['nmedia'] == 0:
            media = [mm.Medium(0, 0)]
        else:
            media = []
            for i, md in enumerate(c['media']):
                kw = dict(boundary=c['boundary'] or 'linear')
                if 'coord' in md:
                    kw['coord'] = md['coord']
                if md.get('nradials'):
                    kw.update(nradials=md['nradials'], radius=md['radius'])
                media.append(mm.Medium(md['eps'], md['sigma'], md.get('height', 0), **kw))
    wires = [mm.Wire(w['n'], *w['p1'], *w['p2'], w['r']) for w in c['wires']]
    m = mm.Mininec(c['f'], wires, media=media)
    for s in c['sources']:
        m.register_source(mm.Excitation(s['mag'] * cmath.exp(1j * math.radians(s['phase_deg']))), s['pulse'] - 1)
    for l in c['loads']:
        if 'z' in l:
            m.register_load(mm.Impedance_Load(l['z']), l['pulse'] - 1)
        else:
            m.register_load(mm.Laplace_Load(a=l['a'], b=l['b']), l['pulse'] - 1)
    return m
