"""Independent evaluation of one impedance-matrix term from the published MININEC-3 potential-integral
formulation: vector potential of the source pulse's two half-segments tested along the observer pulse plus the
differences of the scalar potentials of its two charged segments at the observer's half-segment ends; adaptive
quadrature (scipy.integrate.quad) from nothing but pulse geometry, wire radii and frequency."""
import numpy as np
from scipy.integrate import quad

MIR = np.array([1., 1., -1.])


def psi(obs, a, b, radius, k, srm):
    """int_a^b exp(-jkR)/R ds over the straight segment a->b; reduced kernel, the radius enters R for thick wires"""
    L = np.linalg.norm(b - a)
    r2 = radius * radius if radius > srm else 0.0
    d = b - a
    o = a - obs

    def R(t):
        p = o + d * t
        return np.sqrt(p @ p + r2)
    re = quad(lambda t: np.cos(k * R(t)) / R(t), 0, 1, epsabs=1e-13, epsrel=1e-11, limit=200)[0]
    im = quad(lambda t: -np.sin(k * R(t)) / R(t), 0, 1, epsabs=1e-13, epsrel=1e-11, limit=200)[0]
    return (re + 1j * im) * L


def pulse_geom(p):
    return (np.array(p.point, float), np.array(p.ends[0], float), np.array(p.ends[1], float), (p.geo[0].r, p.geo[1].r))


def term(gm, gn, k, srm, image=False):
    """(value, magnitude of the potential terms) of the (m, n) entry for observer geometry gm and source geometry gn"""
    ptm, e0m, e1m, _ = gm
    ptn, e0n, e1n, (r0, r1) = gn
    if image:
        ptn, e0n, e1n = ptn * MIR, e0n * MIR, e1n * MIR
    L0, L1 = np.linalg.norm(ptn - e0n), np.linalg.norm(e1n - ptn)
    d0, d1 = (ptn - e0n) / L0, (e1n - ptn) / L1
    hm, hp = ptn + (e0n - ptn) * .5, ptn + (e1n - ptn) * .5
    A = psi(ptm, hm, ptn, r0, k, srm) * d0 + psi(ptm, ptn, hp, r1, k, srm) * d1
    lm = (e1m - e0m) / 2.
    vec = k * k * (A @ lm)
    om, op = ptm + (e0m - ptm) * .5, ptm + (e1m - ptm) * .5
    t = [psi(om, ptn, e1n, r1, k, srm) / L1, psi(op, ptn, e1n, r1, k, srm) / L1,
         psi(op, e0n, ptn, r0, k, srm) / L0, psi(om, e0n, ptn, r0, k, srm) / L0]
    sc = (t[0] - t[1]) + (t[2] - t[3])
    mag = abs(k * k) * abs(A @ lm) + sum(abs(x) for x in t)
    val = vec + sc
    if image:
        val = -val
    return val, mag


def entry(pm, pn, k, srm, ground):
    gm, gn = pulse_geom(pm), pulse_geom(pn)
    v, mag = term(gm, gn, k, srm)
    if ground and not pn.ground.any():
        vi, mi = term(gm, gn, k, srm, image=True)
        v, mag = v + vi, mag + mi
    return v, mag
