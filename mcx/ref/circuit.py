"""Circuit reference models: exact rational arithmetic for lumped loads, closed forms for distributed loads."""
from fractions import Fraction as Fr
import math
import numpy as np

MU0 = 1.25663706127e-6


class QC:
    """complex number with exact rational parts"""

    def __init__(self, re=0, im=0):
        self.re, self.im = Fr(re), Fr(im)

    def __add__(a, b):
        b = b if isinstance(b, QC) else QC(b)
        return QC(a.re + b.re, a.im + b.im)
    __radd__ = __add__

    def __mul__(a, b):
        b = b if isinstance(b, QC) else QC(b)
        return QC(a.re * b.re - a.im * b.im, a.re * b.im + a.im * b.re)
    __rmul__ = __mul__

    def inv(a):
        d = a.re * a.re + a.im * a.im
        return QC(a.re / d, -a.im / d)

    def __truediv__(a, b):
        b = b if isinstance(b, QC) else QC(b)
        return a * b.inv()

    def iszero(a):
        return a.re == 0 and a.im == 0

    def c(a):
        return complex(float(a.re), float(a.im))


def omega(f_mhz):
    return 2 * np.pi * f_mhz * 1e6      # same float expression as any user of the formula w = 2 pi f


def series_rlc(f_mhz, R, L, C):
    """R + jwL + 1/(jwC); a missing (None or 0) element is a short; returns (Z complex, scale)"""
    w = Fr(omega(f_mhz))
    z = QC(Fr(R or 0), w * Fr(L or 0))
    sc = abs(R or 0) + abs(float(w) * (L or 0))
    if C:
        z = z + QC(0, -1 / (w * Fr(C)))
        sc += abs(1 / (float(w) * C))
    return z.c(), sc


def trap(f_mhz, R, L, C):
    """(R + jwL) parallel to 1/(jwC)"""
    w = Fr(omega(f_mhz))
    zs = QC(Fr(R), w * Fr(L))
    yc = QC(0, w * Fr(C))
    y = zs.inv() + yc if not zs.iszero() else None
    if y is None:
        return None, 0.0
    if y.iszero():
        return None, 0.0
    z = y.inv()
    return z.c(), abs(z.c()) + abs(R) + abs(float(w) * L) + abs(1 / (float(w) * C))


def laplace(f_mhz, a, b):
    """sum b_k s^k / sum a_k s^k, s = jw"""
    w = Fr(omega(f_mhz))
    s = QC(0, w)
    num, den, p = QC(0), QC(0), QC(1)
    n = max(len(a), len(b))
    sc = 0.0
    for k in range(n):
        if k < len(b):
            num = num + p * Fr(b[k])
            sc += abs(b[k]) * float(w) ** k
        if k < len(a):
            den = den + p * Fr(a[k])
        p = p * s
    if den.iszero():
        return None, 0.0
    z = num / den
    return z.c(), abs(z.c()) + sc / max(abs(den.c()), 1e-300)


def skin_per_length(f_mhz, radius, sigma):
    """internal impedance per unit length of a round wire. Below |kr| = 110: Kelvin-function form
    (Ramo/Whinnery/Van Duzer): Z = j Rs/(sqrt2 pi r) (ber q + j bei q)/(ber' q + j bei' q), q = r sqrt(w mu sigma);
    at and above 110 the documented asymptote (1+j) Rs / (2 pi r)."""
    from scipy.special import ber, bei, berp, beip
    w = omega(f_mhz)
    q = radius * math.sqrt(w * MU0 * sigma)
    Rs = math.sqrt(w * MU0 / (2 * sigma))
    if q < 110.0:
        return 1j * Rs / (math.sqrt(2) * math.pi * radius) * (ber(q) + 1j * bei(q)) / (berp(q) + 1j * beip(q)), q
    return (1 + 1j) * Rs / (2 * math.pi * radius), q


def insulation_per_length(f_mhz, a, b, eps_r):
    """series inductance of a dielectric coat (radius b, permittivity eps_r) on a wire of radius a, times jw"""
    w = omega(f_mhz)
    return 1j * w * MU0 / (2 * math.pi) * (eps_r - 1) / eps_r * math.log(b / a)


def equivalent_radius(a, b, eps_r):
    return b * (a / b) ** (1.0 / eps_r)
