"""Reference model of the wire topology: the harness' own end clustering.
Works on straight-wire cases (from the case description only)."""
import itertools
import numpy as np


def min_seglen(case):
    return min(np.linalg.norm(np.array(w['p2']) - np.array(w['p1'])) / w['n'] for w in case['wires'])


def clusters(case, ground, tol=None):
    """Union wire ends that are closer than tol (default 1e-3 of the shortest segment).
    Returns (junctions, ground_ends, free_ends, ambiguous)
      junctions: list of lists of (wire index, end index) with len >= 2
      ambiguous: True if 'closer than tol' is not transitive on this input
    """
    ws = case['wires']
    if tol is None:
        tol = 1e-3 * min_seglen(case)
    ends = []
    for i, w in enumerate(ws):
        for e, key in enumerate(('p1', 'p2')):
            ends.append(((i, e), np.array(w[key], float)))
    gnd = []
    rest = []
    for k, p in ends:
        if ground and abs(p[2]) < tol:
            gnd.append(k)
        else:
            rest.append((k, p))
    parent = {k: k for k, _ in rest}

    def find(x):
        while parent[x] != x:
            x = parent[x]
        return x
    close = {}
    for (k1, p1), (k2, p2) in itertools.combinations(rest, 2):
        c = np.linalg.norm(p1 - p2) < tol
        close[(k1, k2)] = c
        if c:
            parent[find(k1)] = find(k2)
    groups = {}
    for k, _ in rest:
        groups.setdefault(find(k), []).append(k)
    amb = False
    for g in groups.values():
        for a, b in itertools.combinations(g, 2):
            if not close.get((a, b), close.get((b, a))):
                amb = True
    junctions = [sorted(g) for g in groups.values() if len(g) > 1]
    free = [g[0] for g in groups.values() if len(g) == 1]
    return junctions, gnd, free, amb


def expected_count(case, ground):
    j, g, f, amb = clusters(case, ground)
    n = sum(w['n'] - 1 for w in case['wires']) + len(g) + sum(len(x) - 1 for x in j)
    return n, j, g, f, amb
