"""Command-line side: case -> argv, in-process runs of main() with captured output."""
import io, contextlib, traceback


def fl(x):
    return repr(float(x))


def geo_argv(case):
    a = []
    for w in case['wires']:
        k = w.get('kind', 'wire')
        tag = [str(w['tag'])] if w.get('tag') is not None else []
        if k == 'wire':
            a.append('-w')
            a.append(','.join(tag + [str(w['n'])] + [fl(x) for x in w['p1']] + [fl(x) for x in w['p2']] + [fl(w['r'])]))
        elif k == 'arc':
            a.append('-a')
            a.append(','.join(tag + [str(w['n']), fl(w['radius']), fl(w['ang1']), fl(w['ang2']), fl(w['r'])]))
        elif k == 'helix':
            a.append('--helix=' + ','.join(tag + [str(w['n']), fl(w['length']), fl(w['turnlen']), fl(w['r'])] + [fl(x) for x in w['radii']]))
    for i, w in enumerate(case['wires']):
        if w.get('taper'):
            t = w['taper']
            tg = w.get('tag', i + 1)
            s = '--taper-wire=%d,%d' % (tg, t[0])
            for x in t[1:]:
                s += ',' + ('' if x is None else fl(x))
            a.append(s)
    for t in case.get('transforms', []):
        if t[0] == 'scale':
            s = '--geo-scale=' + fl(t[1])
            if len(t) > 2 and t[2] is not None:
                s += ',%d' % t[2]
        else:
            s = '--geo-%s=%s,%s' % (t[0], fl(t[1]), ','.join(fl(x) for x in t[2]))
            if len(t) > 3 and t[3] is not None:
                s += ',%d' % t[3]
        a.append(s)
    return a


def env_argv(case):
    env = case.get('env')
    a = []
    if env is None or env == 'free':
        return a
    if env == 'ideal':
        return ['--medium=0,0,0']
    for m in env['media']:
        s = '--medium=%s,%s,%s' % (fl(m[0]), fl(m[1]), fl(m[2]))
        if len(m) > 3 and m[3] is not None:
            s += ',' + fl(m[3])
        a.append(s)
    if env.get('boundary'):
        a.append('--boundary=' + env['boundary'])
    if env.get('radials'):
        a.append('--radial-count=%d' % env['radials'][0])
        a.append('--radial-radius=' + fl(env['radials'][1]))
    return a


def argv(case, extra=()):
    return ['-f', fl(case['f'])] + geo_argv(case) + env_argv(case) + list(extra)


def run_main(argv):
    """-> (kind, value, stdout, stderr);
    kind: 'ret' (value = return value), 'exit' (SystemExit code), 'exc' (value = (type name, innermost mininec function, message))"""
    from mininec.mininec import main
    out, err, e2 = io.StringIO(), io.StringIO(), io.StringIO()
    with contextlib.redirect_stdout(out), contextlib.redirect_stderr(e2):
        try:
            r = main(list(argv), f_err=err)
            kind = 'ret'
        except SystemExit as e:
            r, kind = e.code, 'exit'
        except Exception as e:
            tb = traceback.extract_tb(e.__traceback__)
            fr = [f for f in tb if '/mininec/' in f.filename]
            r = (type(e).__name__, fr[-1].name if fr else '?', str(e)[:200])
            kind = 'exc'
    return kind, r, out.getvalue(), err.getvalue() + e2.getvalue()


def build_main(argv):
    """model built by main(..., return_mininec=True); returns (model or None, diagnostics)"""
    from mininec.mininec import main
    out, err = io.StringIO(), io.StringIO()
    with contextlib.redirect_stdout(out), contextlib.redirect_stderr(err):
        try:
            m = main(list(argv), f_err=err, return_mininec=True)
        except SystemExit as e:
            return None, 'usage:%s %s' % (e.code, err.getvalue()[-200:])
        except Exception as e:       # uncaught exception while building: C20's business
            return None, 'exc:%s %s' % (type(e).__name__, str(e)[:100])
    if m is None or isinstance(m, int):
        return None, 'ret %s: %s' % (m, (out.getvalue() + err.getvalue()).strip()[:300])
    return m, ''


def reset_sources(m):
    """drop the sources main() registered (default pulse) so that the harness can place geometric ones"""
    m.sources = []


def build_moved(case, k, d, how='translate'):
    """the structure of `case`, described with straight wire k displaced and brought back into place by a per-tag
    transformation option (automatic tags = listing order): 'translate' (described at p - d, --geo-translate=+d),
    'scale' (described at p / 2 with half the radius, --geo-scale=2), 'rotate' (described rotated by -90 deg about z,
    --geo-rotate z +90). Returns (model or None, diagnostics); the default source main() registers is dropped."""
    import numpy as np
    ws = [dict(w) for w in case['wires']]
    w = ws[k]
    if how == 'translate':
        d = np.array(d, float)
        w['p1'], w['p2'] = list(np.array(w['p1']) - d), list(np.array(w['p2']) - d)
        tr = [['translate', 1.0, list(d), k + 1]]
    elif how == 'scale':
        w['p1'], w['p2'], w['r'] = list(np.array(w['p1']) / 2), list(np.array(w['p2']) / 2), w['r'] / 2
        tr = [['scale', 2.0, k + 1]]
    else:
        R = np.array([[0., 1., 0.], [-1., 0., 0.], [0., 0., 1.]])     # rotation by -90 degrees about z
        w['p1'], w['p2'] = list(R @ np.array(w['p1'])), list(R @ np.array(w['p2']))
        tr = [['rotate', 1.0, [0., 0., 90.], k + 1]]
    m, diag = build_main(argv(dict(case, wires=ws, transforms=tr), ['--excitation-pulse=1']))
    if m is not None:
        reset_sources(m)
    return m, diag
