"""CLI: python -m mcx.run <ID> [--tier quick|thorough] [--replay file] | --selftest"""
import os, sys, argparse, importlib

# environment must be pinned before numpy is imported anywhere
for k in ('OMP_NUM_THREADS', 'OPENBLAS_NUM_THREADS', 'MKL_NUM_THREADS'):
    os.environ.setdefault(k, '1')
os.environ.setdefault('PYTHONDONTWRITEBYTECODE', '1')
sys.dont_write_bytecode = True
SRC = os.environ.get('PYMININEC_SRC', '/repo')
if SRC not in sys.path:
    sys.path.insert(0, SRC)
HERE = os.path.dirname(os.path.dirname(os.path.abspath(__file__)))
if HERE not in sys.path:
    sys.path.insert(0, HERE)

PROPS = ['C%02d' % i for i in range(1, 21)]


def selftest():
    import json
    import mininec.mininec as mm
    assert os.path.realpath(mm.__file__).startswith(os.path.realpath(SRC)), mm.__file__
    ok = []
    for p in PROPS:
        try:
            importlib.import_module('mcx.props.' + p.lower())
            ok.append(p)
        except ModuleNotFoundError:
            pass
    man = json.load(open(os.path.join(HERE, 'MANIFEST.json')))
    claimed = [c['property_id'] for c in man['checks']]
    na = [c['property_id'] for c in man.get('not_applicable', [])]
    missing = [p for p in claimed if p not in ok]
    assert not missing, missing
    assert sorted(claimed + na) == PROPS, (claimed, na)
    print('selftest ok: mininec from %s; property modules: %s' % (mm.__file__, ' '.join(ok)))
    return 0


def main(argv=None):
    ap = argparse.ArgumentParser()
    ap.add_argument('prop', nargs='?')
    ap.add_argument('--tier', default=os.environ.get('VERIF_TIER', 'quick'), choices=['quick', 'thorough'])
    ap.add_argument('--replay')
    ap.add_argument('--selftest', action='store_true')
    ap.add_argument('--max-seconds', type=float)
    a = ap.parse_args(argv)
    if a.selftest:
        return selftest()
    try:
        seed = int(os.environ.get('VERIF_SEED', '0'))
    except ValueError:
        seed = 0
    from mcx import core
    mod = importlib.import_module('mcx.props.' + a.prop.lower())
    return core.run_property(mod, a.tier, seed, max_seconds=a.max_seconds, replay=a.replay)


if __name__ == '__main__':
    sys.exit(main())
