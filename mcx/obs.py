"""Observables of a solved model and their comparison (used by the symmetry properties)."""
import numpy as np
from mcx import geom


def solve(m):
    m.compute()
    return m


def far(m, zen, azi, pwr=None, dist=0):
    import mininec.mininec as mm
    kw = {}
    if pwr is not None:
        kw['pwr'] = pwr
    if dist:
        kw['dist'] = dist
    m.compute_far_field(mm.Angle(*zen), mm.Angle(*azi), **kw)
    ff = m.far_field
    return np.array(ff.e_theta), np.array(ff.e_phi), np.array(ff.gain)


def near(m, pts, pwr=None):
    E, H = [], []
    for p in pts:
        kw = {}
        if pwr is not None:
            kw['pwr'] = pwr
        m.compute_near_field(list(p), [1.0, 1.0, 1.0], [1, 1, 1], **kw)
        E.append(np.array(m.e_field[0]))
        H.append(np.array(m.h_field[0]))
    return np.array(E), np.array(H)


def observe(m, zen=None, azi=None, nfpts=None):
    o = dict(Z=np.array([s.impedance for s in m.sources]), hc=geom.half_currents(m))
    if zen is not None:
        o['et'], o['ep'], o['gain'] = far(m, zen, azi)
    if nfpts is not None and len(nfpts):
        o['E'], o['H'] = near(m, nfpts)
    return o


def compare(a, b):
    """relative deviations of the observables of two descriptions of the same antenna"""
    d = {}
    d['Z'] = float(np.max(np.abs(a['Z'] - b['Z']) / np.abs(a['Z']))) if len(a['Z']) else 0.0
    hc = geom.cmp_half_currents(a['hc'], b['hc'])
    d['I'] = float('inf') if hc is None else float(hc)
    if 'et' in a:
        mx = max(np.abs(a['et']).max(), np.abs(a['ep']).max())
        d['ff'] = float(max(np.abs(a['et'] - b['et']).max(), np.abs(a['ep'] - b['ep']).max()) / mx)
    if 'E' in a:
        ne = np.linalg.norm(a['E'], axis=1)
        nh = np.linalg.norm(a['H'], axis=1)
        d['E'] = float(np.max(np.linalg.norm(a['E'] - b['E'], axis=1) / ne))
        d['H'] = float(np.max(np.linalg.norm(a['H'] - b['H'], axis=1) / nh))
    return d
