#!/bin/bash
# Line coverage of /repo/mininec under the quick tier of every check (each check single-process under coverage.py,
# all checks side by side). Not a check: a way to see which option classes / branches no check drives.
# usage: tools/coverage.sh [tier]   -> report in /tmp/mcxcov/report.txt (scratch; removed by the caller when done)
T=${1:-quick}
D=/tmp/mcxcov; rm -rf $D; mkdir -p $D
printf '[run]\nparallel = True\nsource = /repo/mininec\ndata_file = %s/.coverage\n' $D > $D/.coveragerc
cd "$(dirname "$0")/.."
for p in $(python3 -c "import json;print(' '.join(c['property_id'] for c in json.load(open('MANIFEST.json'))['checks']))"); do
  ( MCX_NPROC=1 MCX_EVIDENCE_DIR=$D/ev MCX_NO_RECHECK=1 MCX_CASE_TIMEOUT=36000 COVERAGE_RCFILE=$D/.coveragerc /venv/bin/python -m coverage run -m mcx.run $p --tier $T > $D/$p.log 2>&1 ) &
done
wait
cd $D && COVERAGE_RCFILE=$D/.coveragerc /venv/bin/python -m coverage combine -q && COVERAGE_RCFILE=$D/.coveragerc /venv/bin/python -m coverage report -m > $D/report.txt
tail -8 $D/report.txt
