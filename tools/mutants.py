#!/usr/bin/env python3
"""Hand-written mutants (string replacements on a scratch worktree of /repo HEAD) to probe what each check sees.
usage: mutants.py [name ...]     writes mutants/RESULTS.md (appends a line per mutant run)
Each mutant: (name, file, old, new, checks). With TESTS=1 the repository test-suite is run on the mutant too."""
import os, subprocess, sys, tempfile, shutil

M = [
 ('k9-constant', 'mininec/mininec.py', "k9   = .016678 / self.power", "k9   = .016687 / self.power", ['C10', 'C01']),
 ('x34-sign', 'mininec/mininec.py', "vv  = np.array ([acs_m.imag, acs_m.real]).T", "vv  = np.array ([-acs_m.imag, acs_m.real]).T", ['C10']),
 ('media-height-sign', 'mininec/mininec.py', "h [:, :, 2] = media_height [j2] * 2", "h [:, :, 2] = media_height [j2] * -2", ['C11', 'C01']),
 ('media-argmin-ge', 'mininec/mininec.py', "j2 = np.argmin (b9 > tc, axis = 0)", "j2 = np.argmin (b9 >= tc - 1.0, axis = 0)", ['C11']),
 ('linear-boundary-abs', 'mininec/mininec.py', "b9 = (t4.T * acs [a_i].real).T + pv.point.T [0]", "b9 = np.abs ((t4.T * acs [a_i].real).T + pv.point.T [0])", ['C11']),
 ('radials-all-media', 'mininec/mininec.py', "z45 [j2 == 0] = (s89 / t89) [j2 == 0]", "z45 [j2 >= 0] = (s89 / t89) [j2 >= 0]", ['C11']),
 ('rotation-order', 'mininec/mininec.py', "self.m = rot_z @ rot_y @ rot_x", "self.m = rot_x @ rot_y @ rot_z", ['C05', 'C13']),
 ('curve-scale-radius', 'mininec/mininec.py', "        self.segends = self.segends * factor\n        self._r      = self._r      * factor", "        self.segends = self.segends * factor", ['C05', 'C13']),
 ('power-no-conj', 'mininec/mininec.py', "return (0.5 * self.voltage * np.conj (self.current)).real", "return (0.5 * self.voltage * self.current).real", ['C07', 'C01']),
 ('trap-coeff-swap', 'mininec/mininec.py', "super ().__init__ (a = (1, R*C, L*C), b = (R, L))", "super ().__init__ (a = (1, L*C, R*C), b = (R, L))", ['C08']),
 ('helix-handedness', 'mininec/mininec.py', "        s = np.sign (length * turnlen)\n        for i in range (n_segments):", "        s = np.sign (turnlen)\n        for i in range (n_segments):", ['C13']),
 ('angle-arange', 'mininec/mininec.py', "        idx = np.array (range (self.number))\n        a   = self.initial + idx * self.inc\n        return a", "        return np.arange (self.initial, self.initial + self.number * self.inc, self.inc)", ['C16']),
 ('source-tag-index', 'mininec/mininec.py', "            w = self.geo.by_tag.get (geo_tag)\n            if not w:\n                raise ValueError ('Invalid geo object: \"%s\"' % geo_tag)", "            w = self.geo [geo_tag - 1] if 0 < geo_tag <= len (self.geo) else None\n            if not w:\n                raise ValueError ('Invalid geo object: \"%s\"' % geo_tag)", ['C17']),
 ('geometry-radius-equiv', 'mininec/pulse.py', "l.append ('%-12s' % format_float ([self.geobj.r_orig]))", "l.append ('%-12s' % format_float ([self.geobj.r]))", ['C19']),
 ('ground-eps-longest', 'mininec/mininec.py', "        eps = self.parent.min_seglen * 1e-3\n        self.is_ground = (abs (self.p1 [-1]) < eps, abs (self.p2 [-1]) < eps)", "        eps = self.parent.min_seglen * 1e-2\n        self.is_ground = (abs (self.p1 [-1]) < eps, abs (self.p2 [-1]) < eps)", ['C12']),
 ('farfield-invground', 'mininec/mininec.py', "kv2g [pv.inv_ground] = np.array ([0, 0, 2])", "kv2g [pv.inv_ground] = np.array ([0, 0, 1])", ['C03', 'C10', 'C01']),
 ('nf-h-power', 'mininec/mininec.py', "f_h = f_e / s0 / (4*np.pi)", "f_h = (pwr / self.power) / s0 / (4*np.pi)", ['C04']),
 ('pulse-iter-sign', 'mininec/mininec.py', "            yield (ow.end_segs [idx], s)", "            yield (ow.end_segs [idx], abs (s))", ['C09']),
 ('media-impedance-cache', 'mininec/mininec.py', "            media_impedance = np.array \\\n                ([m.impedance (self.f) for m in self.media])", "            if getattr (self, '_mimp', None) is None:\n                self._mimp = np.array \\\n                    ([m.impedance (self.f) for m in self.media])\n            media_impedance = self._mimp", ['C14', 'C11']),
 ('basic-height-first', 'mininec/mininec.py', "        if self.prev:\n            # HEIGHT OF MEDIA:\n            r.append ('%g' % self.height)", "        if self.prev and self.height:\n            # HEIGHT OF MEDIA:\n            r.append ('%g' % self.height)", ['C18']),
 ('rhs-grounded-conj', 'mininec/mininec.py', "                f2 = -2j/self.m\n            rhs [src.idx] = f2 * src.voltage", "                f2 = -2j/self.m\n                rhs [src.idx] = f2 * np.conj (src.voltage)\n                continue\n            rhs [src.idx] = f2 * src.voltage", ['C07', 'C03']),
 ('load-weight-sign', 'mininec/mininec.py', "self.Z [j][j] += -f2 * l.impedance (self.f, pulse) * 1j", "self.Z [j][j] += -f2 * np.conj (l.impedance (self.f, pulse)) * 1j", ['C08', 'C01']),
 ('taper-growth', 'mininec/taper.py', "        inc  = (1 << i) * minc\n        if state == 0:\n            inc1 = (lv - (p - p1)) / rem", "        inc  = (3 ** i) * minc / (1.5 ** i) * (1.0 if i < 3 else 1.2)\n        if state == 0:\n            inc1 = (lv - (p - p1)) / rem", ['C13']),
 ('endmatch-le', 'mininec/mininec.py', "                minlen = parent.min_seglen * 1e-3\n", "                minlen = parent.min_seglen * 1.2e-3\n", ['C12']),
 ('compute-tags-sort', 'mininec/mininec.py', "        self.geo.sort (key = lambda geobj: geobj.tag)", "        self.geo.sort (key = lambda geobj: (not geobj.had_tag, geobj.tag))", ['C17', 'C06', 'C15']),
 ('cmdline-helix-radii', 'mininec/mininec.py', "              , self.rx1, self.ry1, self.rx2, self.ry2\n              )\n        flt", "              , self.rx1, self.ry1, self.ry2, self.rx2\n              )\n        flt", ['C15']),
 ('near-image-cond', 'mininec/mininec.py', "                    cond = np.logical_and \\\n                        (*np.logical_not (self.pulses.ground.T))", "                    cond = np.logical_not (self.pulses.ground.T [0])", ['C04', 'C03']),
 ('gauss-order', 'mininec/mininec.py', "        gauss_n [np.logical_and (g_idx, t >  6)] = 4", "        gauss_n [np.logical_and (g_idx, t >  3)] = 2", ['C02']),
 ('sl-swap', 'mininec/mininec.py', "            u12 [c]    = (sp [c] - u56 [c]) / sl [..., 1][c]", "            u12 [c]    = (sp [c] - u56 [c]) / sl [..., 0][c]", ['C02', 'C06']),
 ('report-current-phase', 'mininec/mininec.py', "                c = self.current [k]\n                a = np.angle (c) / np.pi * 180", "                c = self.current [k]\n                a = np.angle (c) / 3.1416 * 180", ['C19']),
 # --- second batch: writers and option parsing
 ('report-power-mode', 'mininec/mininec.py', "              , format_float ([self.power], 1) [0]\n              )\n            )\n        return '\\n'.join (r)\n    # end def as_mininec\n\n    def as_mininec_short", "              , format_float ([self.power * 0.5], 1) [0]\n              )\n            )\n        return '\\n'.join (r)\n    # end def as_mininec\n\n    def as_mininec_short", ['C19', 'C07']),
 ('basic-laplace-version', 'mininec/mininec.py', "                if args.mininec_version != '9':\n                    f = 1", "                if args.mininec_version == '9':\n                    f = 1", ['C18']),
 ('cmdline-laplace-swap', 'mininec/mininec.py', "        r.append ('--laplace-load-b=%s' % ','.join ('%.8g' % b for b in self.b))\n        r.append ('--laplace-load-a=%s' % ','.join ('%.8g' % a for a in self.a))", "        r.append ('--laplace-load-b=%s' % ','.join ('%.8g' % b for b in self.a))\n        r.append ('--laplace-load-a=%s' % ','.join ('%.8g' % a for a in self.b))", ['C15']),
 ('cmdline-trap-precision', 'mininec/mininec.py', "        r.append ('--trap-load=%g,%g,%g' % (self.r, self.l, self.c))", "        r.append ('--trap-load=%.2g,%.2g,%.2g' % (self.r, self.l, self.c))", ['C15']),
 ('cmdline-insulation-tag', 'mininec/mininec.py', "        s = '--insulation-load=%g,%g' % (self.radius, self.epsilon_r)\n        if not self.all_wires:\n            s = s + ',%d' % self.geobj.tag", "        s = '--insulation-load=%g,%g' % (self.radius, self.epsilon_r)\n        if not self.all_wires:\n            s = s + ',%d' % (self.geobj.n + 1)", ['C15']),
 ('cmdline-skin-res-as-cond', 'mininec/mininec.py', "            s = '--skin-effect-resistivity=%g' % self.resistivity", "            s = '--skin-effect-conductivity=%g' % self.resistivity", ['C15']),
 ('report-laplace-factor', 'mininec/mininec.py', "                # Factor, L, C are in µH, µF\n                f = 10 ** (6 * d)\n                s = 'NUMERATOR", "                # Factor, L, C are in µH, µF\n                f = 10 ** (3 * d)\n                s = 'NUMERATOR", ['C19']),
 ('short-source-phase', 'mininec/mininec.py', "        mp = format_float ((self.magnitude, self.phase_d), use_e = True)", "        mp = format_float ((self.magnitude, self.phase), use_e = True)", ['C19', 'C18']),
 ('angle-inc-sign', 'mininec/mininec.py', "        a   = self.initial + idx * self.inc\n        return a", "        a   = self.initial + idx * abs (self.inc)\n        return a", ['C16']),
]


def run(name, fn, old, new, checks):
    wt = tempfile.mkdtemp(prefix='mut.')
    os.rmdir(wt)
    subprocess.run(['git', '-C', '/repo', 'worktree', 'add', '-q', '--detach', wt, 'HEAD'], check=True)
    try:
        p = os.path.join(wt, fn)
        s = open(p).read()
        if s.count(old) != 1:
            return '%s | PATTERN NOT FOUND (%d)' % (name, s.count(old))
        open(p, 'w').write(s.replace(old, new))
        tests = ''
        if os.environ.get('TESTS') == '1':
            r = subprocess.run(['/venv/bin/python', '-m', 'pytest', '-q', '-p', 'no:cacheprovider', '--timeout=900', '-q'], cwd=wt, capture_output=True, text=True)
            fails = [l for l in r.stdout.split('\n') if l.startswith('FAILED')]
            tests = ' | tests: %d failed%s' % (len(fails), ' (baseline only)' if len(fails) == 1 and 'ideal_ground_near' in fails[0] else '')
        det = []
        for c in checks:
            env = dict(os.environ, PYMININEC_SRC=wt, MCX_EVIDENCE_DIR=os.path.join(wt, '.ev'), MCX_NO_RECHECK='1')
            r = subprocess.run(['./check', c, '--tier', 'quick'], cwd='/verif', capture_output=True, text=True, env=env)
            sigs = [l.strip().split()[1] for l in r.stdout.split('\n') if l.strip().startswith('signature:')]
            det.append('%s:%s' % (c, ','.join(sigs[:3]) if sigs else 'MISSED'))
        return '%s%s | %s' % (name, tests, ' ; '.join(det))
    finally:
        subprocess.run(['git', '-C', '/repo', 'worktree', 'remove', '--force', wt])


if __name__ == '__main__':
    names = sys.argv[1:]
    os.makedirs('/verif/mutants', exist_ok=True)
    with open('/verif/mutants/RESULTS.md', 'a') as out:
        for m in M:
            if names and m[0] not in names:
                continue
            line = run(*m)
            print(line, flush=True)
            out.write('- ' + line + '\n')
