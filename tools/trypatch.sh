#!/bin/bash
# usage: trypatch.sh <patch.diff> [check ids...]   - apply patch to a scratch worktree of /repo HEAD,
# run the repository test-suite there, then (optionally) the quick checks with PYMININEC_SRC pointing at it.
# env: SKIPTESTS=1 to skip the test-suite, TIER=quick|thorough
set -u
P=$(readlink -f "$1"); shift
WT=$(mktemp -d /tmp/wt.XXXXXX); rmdir $WT
git -C /repo worktree add -q --detach $WT HEAD || exit 9
cd $WT && git apply "$P" || { echo "PATCH DOES NOT APPLY"; git -C /repo worktree remove --force $WT; exit 8; }
if [ "${SKIPTESTS:-0}" != 1 ]; then
  timeout 1500 /venv/bin/python -m pytest -q -p no:cacheprovider --timeout=900 -q 2>&1 | tail -3
fi
for id in "$@"; do
  (cd /verif && PYMININEC_SRC=$WT MCX_EVIDENCE_DIR=$WT/.ev ./check $id --tier ${TIER:-quick} 2>&1 | grep -E "^(C[0-9]+ tier|VIOLATION|KNOWN|FLAKY|  signature)" | head -12)
done
cd /; git -C /repo worktree remove --force $WT; git -C /repo worktree prune
