#!/bin/bash
# runs every claimed check (tier from $1, default quick); prints one line per check
cd "$(dirname "$0")/.."
T=${1:-quick}
for p in $(python3 -c "import json;print(' '.join(c['property_id'] for c in json.load(open('MANIFEST.json'))['checks']))"); do
  s=$(date +%s); out=$(./check $p --tier $T 2>&1); rc=$?
  echo "$p rc=$rc $(( $(date +%s)-s ))s $(echo "$out" | grep -c '^VIOLATION') viol $(echo "$out" | grep -c '^KNOWN-FINDING') known $(echo "$out" | grep -c '^FLAKY') flaky | $(echo "$out" | grep '^C[0-9]' | cut -c1-140)"
  echo "$out" | grep -A1 '^VIOLATION' | cut -c1-300
done
