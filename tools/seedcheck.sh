#!/bin/bash
# usage: seedcheck.sh <seeded/dir> [check ids...]
# Confirms a seeded defect: demo passes on clean HEAD, patch applies, test-suite passes with it, demo fails with it;
# then runs the given quick checks against the patched copy (PYMININEC_SRC). Scratch worktree is removed afterwards.
set -u
D=$(readlink -f "$1"); shift
WT=$(mktemp -d /tmp/wt.XXXXXX); rmdir $WT
git -C /repo worktree add -q --detach $WT HEAD || exit 9
mkdir -p $WT/_seed; cp $D/demo.py $WT/_seed/
cd $WT
/venv/bin/python _seed/demo.py > $WT/.demo0 2>&1; echo "demo without patch: exit $? ($(tail -1 $WT/.demo0))"
git apply --exclude='_seed/*' "$D/patch.diff" || git apply -3 --exclude='_seed/*' "$D/patch.diff" || { echo "PATCH DOES NOT APPLY"; cd /; git -C /repo worktree remove --force $WT; exit 8; }
if [ "${SKIPTESTS:-0}" != 1 ]; then
  echo "tests with patch: $(timeout 1500 /venv/bin/python -m pytest -q -p no:cacheprovider --timeout=900 -q 2>&1 | tail -1)"
  git status --short | grep -v '^??' | head -3
fi
/venv/bin/python _seed/demo.py > $WT/.demo1 2>&1; echo "demo with patch: exit $? ($(tail -1 $WT/.demo1))"
for id in "$@"; do
  (cd /verif && PYMININEC_SRC=$WT MCX_EVIDENCE_DIR=$WT/.ev ./check $id --tier ${TIER:-quick} 2>&1 | grep -E "^(C[0-9]+ tier|VIOLATION|FLAKY|  signature)" | cut -c1-300 | head -10)
done
cd /; git -C /repo worktree remove --force $WT; git -C /repo worktree prune
