#!/usr/bin/env python3
"""merge what was run (seeded/<id>/run.log, checks) into seeded/<id>/meta.json and write seeded/RESULTS.md"""
import glob, json, os, re
rows = []
for d in sorted(glob.glob('/verif/seeded/C*-*')):
    mp = os.path.join(d, 'meta.json')
    m = json.load(open(mp)) if os.path.exists(mp) else {}
    log = open(os.path.join(d, 'run.log')).read() if os.path.exists(os.path.join(d, 'run.log')) else ''
    checks = open(os.path.join(d, 'checks')).read().split() if os.path.exists(os.path.join(d, 'checks')) else [os.path.basename(d).split('-')[0]]
    det = {}
    for c in checks:
        sigs = re.findall(r'VIOLATION property=%s [^\n]*\n\s+signature: (\S+)' % c, log)
        det[c] = sorted(set(sigs))
    m['property'] = os.path.basename(d).split('-')[0]
    m['confirmed_here'] = dict(
        how='tools/seedcheck.sh: scratch worktree of /repo HEAD; demo on the clean tree; git apply patch.diff; repository test-suite; demo again; quick checks with PYMININEC_SRC=<worktree>; worktree removed',
        demo_passes_on_clean_tree='demo without patch: exit 0' in log,
        tests_with_patch=(re.search(r'tests with patch: (.*)', log).group(1)[:120] if re.search(r'tests with patch: (.*)', log) else 'not run in the last pass (SKIPTESTS)'),
        only_baseline_failure=bool(re.search(r'tests with patch: .*test_vertical_ideal_ground_near', log)) or None,
        demo_fails_with_patch='demo with patch: exit 1' in log,
        checks_run=checks, detected_by={c: s for c, s in det.items() if s}, missed_by=[c for c, s in det.items() if not s])
    json.dump(m, open(mp, 'w'), indent=1)
    rows.append('| %s | %s | %s | %s | %s |' % (os.path.basename(d), (m.get('summary') or '')[:110].replace('|', '/'), (m.get('needs') or '')[:90].replace('|', '/'),
                                          ', '.join('%s (%s)' % (c, ', '.join(s[:2])) for c, s in det.items() if s) or 'NONE', ', '.join(c for c, s in det.items() if not s)))
open('/verif/seeded/RESULTS.md', 'w').write('# Seeded defects and the checks that catch them\n\n| seed | change | needs | caught by (first signatures) | run but silent |\n|---|---|---|---|---|\n' + '\n'.join(rows) + '\n')
print(len(rows), 'seeds')
