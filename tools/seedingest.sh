#!/bin/bash
# usage: seedingest.sh <ID> <suffix> [checks...]  - copies /tmp/seed/<ID>/_seed/{patch.diff,demo.py,meta.json} to seeded/<ID>-<suffix>,
# removes the agent's scratch worktree and confirms the seed (tests skipped unless TESTS=1; the agent ran them, seedall re-runs them)
cd "$(dirname "$0")/.."
ID=$1; SUF=$2; shift 2
D=seeded/$ID-$SUF
mkdir -p $D
cp /tmp/seed/$ID/_seed/patch.diff /tmp/seed/$ID/_seed/demo.py /tmp/seed/$ID/_seed/meta.json $D/ || exit 1
[ $# -gt 0 ] && echo "$@" > $D/checks
git -C /repo worktree remove --force /tmp/seed/$ID; git -C /repo worktree prune
if [ "${TESTS:-0}" = 1 ]; then tools/seedcheck.sh $D ${@:-$ID}; else SKIPTESTS=1 tools/seedcheck.sh $D ${@:-$ID}; fi 2>&1 | tee $D/run.log
