#!/bin/bash
# usage: seedall.sh [seed dirs...]  - confirms every seeded defect (demo / tests / checks) and writes seeded/RESULTS.md
# the checks to run for a seed are read from seeded/<id>/checks (space separated), default: its own property
cd "$(dirname "$0")/.."
DIRS=${@:-$(ls -d seeded/C*-*)}
for d in $DIRS; do
  id=$(basename $d); prop=${id%%-*}
  checks=$(cat $d/checks 2>/dev/null || echo $prop)
  tools/seedcheck.sh $d $checks > $d/run.log 2>&1
  det=""
  for c in $checks; do
     if grep -q "^VIOLATION property=$c" $d/run.log; then det="$det $c"; fi
  done
  echo "$id | demo clean: $(grep -c 'demo without patch: exit 0' $d/run.log) | tests: $(grep '^tests with patch' $d/run.log | sed 's/.*:: *//' | cut -c1-60) | demo patched fails: $(grep -c 'demo with patch: exit 1' $d/run.log) | detected by:${det:- NONE} (ran: $checks)"
done
