#!/usr/bin/env python3
"""Regenerates MANIFEST.json from the table below (one entry per claimed property)."""
import json, os, subprocess
HERE = os.path.dirname(os.path.dirname(os.path.abspath(__file__)))
BASE = "cd /repo && /venv/bin/python -m pytest -ra -q -p no:cacheprovider --timeout=900 --continue-on-collection-errors"
T = 'bounded exhaustive enumeration of %s on the real code, each case compared with %s'
CHECKS = {
 'C12': (T % ('all directed descriptions of all <=3 (thorough 4)-wire graphs on a 5-point lattice x segment counts {1,2,3}^n, free space and ground, with end perturbations around the matching tolerance', 'an independent end-clustering reference model (pulse count, numbering, position, junction spanning trees, report rows)'),
         'Every description within the bound is built with the real constructors; nothing is sampled. Outside the bound: >4 wires, curved objects except fixed extras.',
         'reference clustering written from the statement; /venv python + numpy', '3/C12'),
}
CHECKS['C06'] = (T % ('all n!*2^n orderings x orientations, all collinear splits (8 forms per split point) and tag permutations of every in-domain <=3 (thorough 4)-wire structure on the lattice, free space and ideal ground', 'the class representative (differential oracle: feed impedance, conductor currents per half-segment, near E/H, far E)'),
         'All descriptions of every structure within the bound are solved with the real solver; tolerance is the stated 5e-4 (cond-scaled). Outside: >4 wires, curved objects.',
         'geometric pulse identity (point + far ends) computed by the harness; conductor currents instead of pulse currents at k>=3 junctions', '3/C06')
CHECKS['C03'] = (T % ('every in-domain <=3 (thorough 4)-wire structure on the ground lattice x every pulse position as feed x 2-source sets', 'the free-space model of antenna + mirror image constructed by the harness (currents, impedances, 3.0103 dB gain offset)'),
         'Every feed position of every structure within the bound is solved twice (ground / free-space pair) with the real solver.',
         'mirror construction follows the statement (image wires reversed, ground-end feed 2V on the junction pulse)', '3/C03')
CHECKS['C05'] = (T % ('every in-domain <=2 (thorough 3)-wire lattice structure (generic and axis-aligned/diagonal lattices, free space and ground) x the full menu of ~45 rotations, translations to 1000 wavelengths, scale factors 0.01..100, two-motion sequences in both key orders and per-tag motions', 'three-way: untransformed, moved by the --geo-* options through main(), moved in the coordinates by the harness (segment ends, Z, mapped conductor currents, gain at rotated directions)'),
         'Every (structure, motion) pair within the bound is built and solved; tolerances as stated.', 'own rotation matrices (X,Y,Z order) and composition (key order, scale last) from the documentation', '3/C05')
CHECKS['C09'] = (T % ('stars of k=2..4 (thorough 5) spokes in every orientation and order and all directed descriptions of all <=3 (thorough 4)-wire lattice graphs, with and without grounded ends', 'the parsed CURRENT DATA block against the harness end clustering (junction sums, free ends, J = signed sum of solved pulse currents)'),
         'Every description within the bound is solved and its report parsed.', 'report parser; end clustering from the statement', '3/C09')
CHECKS['C16'] = (T % ('per axis 6 starts x 9 steps (non-representable decimals, negative) x counts (quick 16 values up to 100, thorough 1..100), 2-/3-axis combinations for counts<=4, the same for theta/phi, through the API and through main() with parsed report', 'start + i*step for i < count in the documented order'),
         'Every grid in the menu is requested from the real code; counts and coordinates compared exactly / to print precision.', '1-pulse model far from the grid keeps the cost per point ~1 ms', '3/C16')
CHECKS['C07'] = (T % ('in-domain lattice structures x every single feed pulse, pairs/triples/quadruples of {first, junction, grounded, last, middle} pulses x all voltage vectors over a 6-value menu for k<=2 and a fixed strength-2 covering array for k=3,4 x 3 complex scale factors', 'superposition of separately solved single-source responses, scaled solutions, V/I and Re(VI*)/2 recomputed by the harness, parsed SOURCE DATA block'),
         'Every (structure, position set, voltage vector) in the bound is solved; for k=3,4 the voltage vectors are a pairwise covering array, not the full product (stated bound).', 'single-source models are taken as the response to one source alone (a 0 V delta-gap source is a short)', '3/C07')
CHECKS['C13'] = (T % ('equal wires (n 1..200), tapered wires (n x 5 lengths x 4 radii x 3 taper ends x 7 min/max forms), arcs (3 radii x 12 angle pairs x n), helices (4 sign combinations x 4 radius sets x 3 pitches x n) and all transformation sequences of depth <=2 (thorough 3) on wire/tapered wire/arc/helix through main()', 'reference segmentations written from the README (equal, arc, helix), the documented taper contract and the harness composition of transformations'),
         'Every parameter combination in the menu is constructed with the real code; rejected (assert) and fall-back combinations are counted separately.', 'taper contract and arc/helix formulas as documented', '3/C13')
CHECKS['C17'] = (T % ('3-object structures (1-segment wires owning a junction or ground pulse, stars, chains, grounded wires, arc+helix+wire) x wire orders x orientations x 5 tag assignments x every pulse in both addressing forms for a source and for a load, plus every all-of-object and all-of-antenna attachment', 'the printed geometry table as ground truth (identical impedances for both forms, listings name the pulse, junction pulse under the later tag, diagonal of Z shifted exactly once per pulse)'),
         'Every pulse of every description in the bound is addressed through main() in both forms.', 'report parser; the geometry table is the reference by statement', '3/C17')
CHECKS['C02'] = (T % ('all ordered pulse pairs >= 2.5 segments apart in every lattice structure with <=3 (thorough 4) wires (thin/thick radius assignments, both orientations, free space and ground, generic and axis-aligned lattices) and in every description of the arc/helix/taper junction structures', 'an independent adaptive-quadrature evaluation of the published MININEC-3 formulation from pulse point, far ends, radii and frequency'),
         'Every qualifying pulse pair of every structure in the bound is compared (tens of thousands of matrix terms); worst deviation 3e-6 against the stated 1e-4.', 'scipy.integrate.quad; formulation as quoted in the statement', '3/C02')
CHECKS['C10'] = (T % ('lattice structures with <=3 (thorough 4) wires and every description of the curved/tapered junction structures x 3 power/distance variants x a 7..13 x 10 direction grid', 'the reference radiation sum (moments at pulse points), the exact half-segment integral on the sub-alphabet, and the algebraic relations between dBi and V/m tables'),
         'Every structure in the bound is solved and every direction of the grid compared. The 2 % clause is enumerated on the sub-alphabet (>=4 segments/wire, L<=lambda/32); two concrete inputs outside it are listed known findings.', 'MININEC constants named in the statement', '3/C10')
CHECKS['C04'] = (T % ('lattice structures with <=2 (thorough 3) wires in both orientations (all junction end combinations, grounding at either end, unequal radii/segment lengths) and every description of the arc/helix/taper junction structures x observation points next to every wire middle, junction and free end at 1/1.5/3 x max(L, 0.01 lambda) and 12 points at 100/1000 wavelengths x 3 power levels', 'an independent field evaluation of the solved pulse currents and charges (analytic gradients, 64-point Gauss, physical constants, image currents) and with the reported far field'),
         'Every observation point of every structure in the bound is requested from the real compute_near_field and compared at the stated 1 %.', 'points closer than max(1 segment, 0.01 lambda) not enumerated (fixed 0.001 lambda finite difference: 2.8 % at lambda/480 segments, DESIGN 3/C04)', '3/C04')
CHECKS['C08'] = (T % ('the full product of 13 frequencies x 5 R x 8 L x 14 C for series-RLC and trap loads, 40 Laplace coefficient vectors, skin-effect and insulation parameter grids, distributed loads on interior/junction/grounded pulses of two-wire structures (1-segment wires, both wire orders, different radii), and in solved lattice structures every pulse as loaded feed x 5 load sets x 2 attachment forms plus neutral loads and the four all-attachment forms', 'exact rational circuit arithmetic, the Kelvin-function skin-effect form, the closed-form insulation inductance times the conductor length of the pulse, and Z_in(with) - Z_in(without) = sum Z_L'),
         'Every parameter combination of the menus is evaluated on the real load classes / solver.', 'scipy Kelvin functions; documented |kr|=110 asymptote', '3/C08')
CHECKS['C11'] = (T % ('in-domain ground structures (sources on interior and grounded pulses, loads on grounded pulses) x 28 single-medium constant pairs, 2/3/4-media linear and circular layouts with boundaries below/between/beyond the reflection points, radials 8/120, all splits of a medium into 2..3 equal-constant pieces and appended media beyond every reflection point', 'the ideal-ground solution (currents/impedances identical), the conductivity sequence towards the ideal pattern, and the unsplit / unappended pattern'),
         'Every media configuration of the menu is solved for every structure in the bound.', 'reflection points computed by the harness from pulse heights and the direction grid (specular reflection)', '3/C11')
CHECKS['C01'] = (T % ('lattice structures with <=2 (thorough 3) wires at 5..9 segments per edge, 7 standard resonant antennas, tapered/arc/helix structures x environments (free, ideal, 6 real-ground layouts incl. radials) x source sets (1..3 sources, complex voltages) x 5..6 load sets', 'the power balance computed by the harness from the applied voltages, the solved currents, load.impedance and a Simpson x trapezoid integral of the reported gain over the sphere'),
         'Every case of the product within the bound is solved and integrated. The enumeration is confined by geometry-only predicates (thin-wire rules, no exact-kernel misfire, 5 % segmentation convergence, flat ground); two concrete inputs outside them are listed known findings.', 'sphere quadrature on a 2.5 x 5 degree grid (error < 0.05 %)', '3/C01')
NA = {}
def main():
    src = subprocess.run(['git', '-C', '/repo', 'log', '--format=%H %s'], capture_output=True, text=True).stdout
    checks = []
    for pid in sorted(CHECKS):
        tech, text, note, ref = CHECKS[pid]
        checks.append(dict(property_id=pid, quick_cmd='./check %s --tier quick' % pid,
                           thorough_cmd='./check %s --tier thorough' % pid,
                           evidence_file='evidence/%s.json' % pid,
                           replay_cmd_template='./check %s --replay {path}' % pid,
                           engine='mcx',
                           level_claimed=dict(category='model_checking', text=text, design_ref='DESIGN.md §' + ref),
                           level_note=note, technique='explicit-state bounded exhaustive exploration: ' + tech))
    allp = ['C%02d' % i for i in range(1, 21)]
    na = [dict(property_id=p, reason=NA.get(p, 'check not built yet in this revision (planned, see DESIGN.md §3)')) for p in allp if p not in CHECKS]
    man = dict(version=1, setup_cmd='./check --selftest',
               hooks=dict(guard='PYMININEC_VERIF', enable='no source hooks: every check drives the public API of the working tree /repo (editable install in /venv); the guard name is reserved and unused',
                          baseline_off_cmd=BASE, source_commits=[], add_only=True),
               engines=[dict(name='mcx', path='mcx/', serves_properties=sorted(CHECKS),
                             kind_free_text='hand-written explicit-state explorer for Python: deterministic enumeration of bounded case/operation spaces, fork pool, per-case reference model executed in lock-step with the implementation')],
               checks=checks, not_applicable=na,
               notes='fix: commits in /repo are listed in known_findings.txt (fixed: lines). Quick checks 10-60 s each on 16 cores.')
    json.dump(man, open(os.path.join(HERE, 'MANIFEST.json'), 'w'), indent=1)
main()
